#!/venv/bin/python
"""Calibration: apply each deliberate break from mutations.json to /repo, run the named checks (quick tier),
restore /repo, and report which checks fired.  Never leaves /repo modified.

usage: run_mutations.py [-k substring] [--tier quick]
"""
import json
import subprocess
import sys
import time
from pathlib import Path

HERE = Path(__file__).resolve().parent
VERIF = HERE.parent
import os
REPO = Path(os.environ.get("VERIF_REPO", "/repo"))


def sh(cmd, **kw):
    return subprocess.run(cmd, shell=True, capture_output=True, text=True, **kw)


def main():
    flt = None
    tier = "quick"
    json_out = None
    args = sys.argv[1:]
    while args:
        a = args.pop(0)
        if a == "-k":
            flt = args.pop(0)
        elif a == "--tier":
            tier = args.pop(0)
        elif a == "--json":
            json_out = args.pop(0)
    muts = json.loads((HERE / "mutations.json").read_text())
    assert sh("git -C %s status --porcelain" % REPO).stdout.strip() == "", "repo not clean"
    results = []
    for m in muts:
        if flt and flt not in m["id"] and flt not in " ".join(m["checks"]):
            continue
        edits = m.get("edits") or [{"file": m["file"], "old": m["old"], "new": m["new"]}]
        if any((REPO / e["file"]).read_text().count(e["old"]) < 1 for e in edits):
            print("SKIP %s: pattern not found" % m["id"])
            results.append((m["id"], "pattern-not-found", {}))
            continue
        try:
            for e in edits:
                f = REPO / e["file"]
                f.write_text(f.read_text().replace(e["old"], e["new"], 1))
            outcome = {}
            for chk in m["checks"]:
                t0 = time.time()
                p = sh("cd %s && ./check %s --tier %s" % (VERIF, chk, tier))
                fired = "VIOLATION property=%s" % chk in p.stdout and p.returncode == 1
                outcome[chk] = "CAUGHT" if fired else ("rc=%d" % p.returncode)
                if not fired:
                    tail = (p.stdout + p.stderr)[-600:]
                    print("   ... %s output tail: %s" % (chk, tail.replace("\n", " | ")))
                else:
                    line = [l for l in p.stdout.splitlines() if l.startswith("  key=")]
                    print("   %s %s (%.0fs) %s" % (chk, outcome[chk], time.time() - t0, line[0][:200] if line else ""))
            results.append((m["id"], m.get("desc", ""), outcome))
            print("%-40s %s" % (m["id"], outcome))
        finally:
            sh("git -C %s checkout -- ." % REPO)
    assert sh("git -C %s status --porcelain" % REPO).stdout.strip() == "", "repo not restored"
    # evidence files were rewritten by mutated runs: restore committed ones
    sh("cd %s && git checkout -- evidence" % VERIF)
    if json_out:
        Path(json_out).write_text(json.dumps([{"id": i, "desc": d, "outcome": o} for i, d, o in results], indent=1))
    missed = [(i, o) for i, d, o in results if any(x != "CAUGHT" for x in (o.values() if isinstance(o, dict) else []))]
    print("\n%d mutations run, %d with a miss" % (len(results), len(missed)))
    for i, o in missed:
        print("  MISS", i, o)


if __name__ == "__main__":
    main()
