// codec driver: read every field of compiled zone tables back through the library's brokers and print JSON
// (C12 encode/decode round trip, C04 data dump, C20 counters).
#include "vcommon.h"
#include <AceTime.h>
#include <map>

#ifdef VERIF_GEN_REGISTRY_H
#include VERIF_GEN_REGISTRY_H
#endif
#ifdef VERIF_GEN_REGISTRY_H2
#include VERIF_GEN_REGISTRY_H2
#endif
#ifndef VERIF_BASIC_NS
#define VERIF_BASIC_NS zonedb
#endif
#ifndef VERIF_EXT_NS
#define VERIF_EXT_NS zonedbx
#endif

using namespace ace_time;
using namespace verif;

static const char* suffixName(uint8_t s) { return s == 0x00 ? "w" : s == 0x10 ? "s" : s == 0x20 ? "u" : "?"; }

template <typename RB, typename PB>
static std::string ruleJson(const RB& r, const PB& pol) {
  J j;
  j.num("fromYearTiny", r.fromYearTiny()).num("toYearTiny", r.toYearTiny()).num("inMonth", r.inMonth())
   .num("onDayOfWeek", r.onDayOfWeek()).num("onDayOfMonth", r.onDayOfMonth()).num("atTimeMinutes", r.atTimeMinutes())
   .str("atTimeSuffix", suffixName(r.atTimeSuffix())).num("deltaMinutes", r.deltaMinutes());
  uint8_t L = r.letter();
  j.num("letterByte", L);
  if (L >= 32) { char b[2] = {(char) L, 0}; j.str("letter", b); }
  else if (L < pol.numLetters()) j.str("letter", pol.letter(L));
  else j.str("letter", "<bad-index>");
  return j.done();
}

static bool g_abbrev = false;      // --abbrev: also ask the processor for the abbreviation at two fixed instants (C12 text path)

template <typename ZI, typename ZIB, typename ZPB_T, typename PROC>
static void dumpDb(const char* kind, const ZI* const* reg, uint16_t n) {
  std::map<const void*, int> policyIds;
  std::string policies = "[";
  std::string zones = "[";
  for (uint16_t i = 0; i < n; i++) {
    ZIB zi(reg[i]);
    J z; z.str("name", zi.name()).num("zoneId", zi.zoneId()).num("startYear", zi.startYear()).num("untilYear", zi.untilYear())
          .num("transitionBufSize", reg[i]->transitionBufSize).num("numEras", zi.numEras());
    std::string eras = "[";
    for (uint8_t e = 0; e < zi.numEras(); e++) {
      auto era = zi.era(e);
      auto pol = era.zonePolicy();
      int pid = -1;
      if (!pol.isNull()) {
        const void* key = (const void*) reg[i]->eras[e].zonePolicy;
        auto it = policyIds.find(key);
        if (it == policyIds.end()) {
          pid = (int) policyIds.size(); policyIds[key] = pid;
          std::string rules = "[";
          for (uint8_t r = 0; r < pol.numRules(); r++) { if (r) rules += ","; rules += ruleJson(pol.rule(r), pol); }
          rules += "]";
          J pj; pj.num("id", pid).num("numRules", pol.numRules()).num("numLetters", pol.numLetters()).raw("rules", rules);
          if (policies.size() > 1) policies += ",";
          policies += pj.done();
        } else pid = it->second;
      }
      J ej; ej.num("offsetMinutes", era.offsetMinutes()).num("deltaMinutes", era.deltaMinutes()).str("format", era.format())
            .num("untilYearTiny", era.untilYearTiny()).num("untilMonth", era.untilMonth()).num("untilDay", era.untilDay())
            .num("untilTimeMinutes", era.untilTimeMinutes()).str("untilTimeSuffix", suffixName(era.untilTimeSuffix())).num("policy", pid);
      if (e) eras += ",";
      eras += ej.done();
      CNT.add("codec.eras");
    }
    eras += "]";
    z.raw("eras", eras);
    if (g_abbrev) {
      PROC proc; TimeZone tz = TimeZone::forZoneInfo(reg[i], &proc);
      z.str("abbrevJul2010", tz.getAbbrev((acetime_t) 331257600)).str("abbrevDec2010", tz.getAbbrev((acetime_t) 345686400));   // 2010-07-01T00:00Z, 2010-12-15T00:00Z
    }
    if (i) zones += ",";
    zones += z.done();
    CNT.add("codec.zones");
  }
  zones += "]"; policies += "]";
  printf("{\"t\":\"i\",\"v\":{\"kind\":\"%s\",\"registrySize\":%u,\"zones\":%s,\"policies\":%s}}\n", kind, n, zones.c_str(), policies.c_str());
}

int main(int argc, char** argv) {
  Args a(argc, argv);
  std::string db = a.get("db", "both");
  g_abbrev = a.has("abbrev");
  if (db == "basic" || db == "both")
    dumpDb<basic::ZoneInfo, basic::ZoneInfoBroker, basic::ZonePolicyBroker, BasicZoneProcessor>("basic", VERIF_BASIC_NS::kZoneRegistry, VERIF_BASIC_NS::kZoneRegistrySize);
  if (db == "extended" || db == "both")
    dumpDb<extended::ZoneInfo, extended::ZoneInfoBroker, extended::ZonePolicyBroker, ExtendedZoneProcessor>("extended", VERIF_EXT_NS::kZoneRegistry, VERIF_EXT_NS::kZoneRegistrySize);
  CNT.flush();
  return 0;
}
