// tzsweep driver: instant -> (offset, DST flag, abbreviation, broken-down fields) over dense grids,
// compared online with the zic oracle file (C01, C02, C03 arduino target, C05 database zones, C09 buffers).
#include "vcommon.h"
#include <AceTime.h>
#include <set>

using namespace ace_time;
using namespace verif;

#ifndef VERIF_BASIC_NS
#define VERIF_BASIC_NS zonedb
#endif
#ifndef VERIF_EXT_NS
#define VERIF_EXT_NS zonedbx
#endif

// --------------------------------------------------------------------------- oracle file
struct OSeg { int64_t start; int32_t utoff; int32_t isdst; char abbr[8]; };
struct OZone { char name[64]; uint32_t first; uint32_t count; };
struct Oracle {
  std::vector<OZone> zones; std::vector<OSeg> segs;
  bool load(const std::string& path) {
    FILE* f = fopen(path.c_str(), "rb"); if (!f) return false;
    char magic[4]; uint32_t n;
    if (fread(magic, 1, 4, f) != 4 || memcmp(magic, "VZIC", 4) || fread(&n, 4, 1, f) != 1) { fclose(f); return false; }
    zones.resize(n); if (n && fread(zones.data(), sizeof(OZone), n, f) != n) { fclose(f); return false; }
    OSeg s; while (fread(&s, sizeof s, 1, f) == 1) segs.push_back(s);
    fclose(f); return true;
  }
  const OZone* find(const char* name) const { for (auto& z : zones) if (!strcmp(z.name, name)) return &z; return nullptr; }
};
static Oracle ORA;

struct OCursor {   // oracle pointer walking alongside the sweep
  const OSeg* s; uint32_t n; uint32_t i;
  OCursor(const OZone* z): s(&ORA.segs[z->first]), n(z->count), i(0) {}
  const OSeg& at(int64_t t) {
    while (i + 1 < n && s[i + 1].start <= t) i++;
    while (i > 0 && s[i].start > t) i--;
    return s[i];
  }
};

struct Triple { int off; int delta; char ab[16]; bool err; };

static inline Triple query(const TimeZone& tz, acetime_t t) {
  Triple r;
  TimeOffset o = tz.getUtcOffset(t);
  TimeOffset d = tz.getDeltaOffset(t);
  const char* a = tz.getAbbrev(t);
  r.err = o.isError() || d.isError();
  r.off = o.toMinutes(); r.delta = d.toMinutes();
  strncpy(r.ab, a ? a : "<null>", sizeof r.ab - 1); r.ab[sizeof r.ab - 1] = 0;
  return r;
}
static inline bool same(const Triple& a, const Triple& b) { return a.off == b.off && a.delta == b.delta && a.err == b.err && !strcmp(a.ab, b.ab); }

static std::string PROP = "c01";
static long long g_fields_checked = 0;

static std::string iso(int64_t t) { Civil c = civil_from_seconds(t); char b[48]; snprintf(b, sizeof b, "%04lld-%02u-%02uT%02u:%02u:%02uZ", (long long) c.y, c.mo, c.d, c.h, c.mi, c.s); return b; }

// compare one probe with the oracle; returns false on mismatch
static bool check_point(const char* zone, const TimeZone& tz, OCursor& oc, int64_t t, bool fields, std::set<long long>* segsSeen, Triple* out = nullptr) {
  Triple q = query(tz, (acetime_t) t);
  if (out) *out = q;
  const OSeg& w = oc.at(t);
  CNT.add("sweep.probes");
  if (segsSeen) segsSeen->insert((long long) (&w - oc.s));
  std::string key, what;
  if (q.err) { key = PROP + ":error-inside-range"; what = "query inside the zone's range returned an error value"; }
  else if (q.off * 60 != w.utoff) { key = PROP + ":offset-differs"; what = "total UTC offset differs from zic"; }
  else if ((q.delta != 0) != (w.isdst != 0)) { key = PROP + ":dst-flag-differs"; what = "DST-in-effect flag differs from zic"; }
  else if (strcmp(q.ab, w.abbr) != 0) { key = PROP + ":abbrev-differs"; what = "abbreviation differs from zic"; }
  if (key.empty() && fields) {
    ZonedDateTime z = ZonedDateTime::forEpochSeconds((acetime_t) t, tz);
    Civil c = civil_from_seconds(t + w.utoff);
    g_fields_checked++;
    if (z.isError() || z.year() != c.y || z.month() != c.mo || z.day() != c.d || z.hour() != c.h || z.minute() != c.mi || z.second() != c.s
        || z.timeOffset().toMinutes() * 60 != w.utoff) {
      key = PROP + ":fields-differ"; what = "ZonedDateTime fields are not the UTC fields shifted by the offset";
    } else if (z.toEpochSeconds() != (acetime_t) t) {
      key = PROP + ":roundtrip-differs"; what = "ZonedDateTime::forEpochSeconds(t).toEpochSeconds() != t";
    } else if (z.dayOfWeek() != oracle_dow(days_from_civil(c.y, c.mo, c.d))) {
      key = PROP + ":fields-differ"; what = "ZonedDateTime dayOfWeek wrong";
    }
  }
  if (!key.empty()) {
    J j; j.str("zone", zone).num("epochSeconds", t).str("utc", iso(t)).num("got_offset_min", q.off).num("got_delta_min", q.delta).str("got_abbrev", q.ab)
        .num("zic_utoff_s", w.utoff).num("zic_isdst", w.isdst).str("zic_abbrev", w.abbr);
    witness(key, what, j);
    return false;
  }
  return true;
}

struct SweepCfg { int gridMinutes; int nbhd; bool allSeconds; bool descending; int64_t lo, hi; int fieldsEvery; };

// One zone, one TimeZone value (any kind).  Returns number of mismatching probes.
static long long sweep_zone(const char* zone, const TimeZone& tz, const OZone* oz, const SweepCfg& cfg, const TimeZone* cross, const char* crossWhat) {
  long long bad = 0;
  OCursor oc(oz);
  std::set<long long> segsSeen;
  int64_t step = cfg.allSeconds ? 1 : (int64_t) cfg.gridMinutes * 60;
  // ascending grid sweep, bisecting every change the sweep itself observes
  Triple prev; bool havePrev = false; int64_t prevT = 0;
  long long n = 0;
  for (int64_t t = cfg.lo; t < cfg.hi; t += step, n++) {
    bool fields = cfg.fieldsEvery > 0 && (n % cfg.fieldsEvery == 0);
    Triple cur;
    if (!check_point(zone, tz, oc, t, fields, &segsSeen, &cur)) { if (++bad > 40) return bad; }
    if (cross) {
      Triple x = query(*cross, (acetime_t) t);
      CNT.add("sweep.cross_probes");
      if (!same(cur, x)) {
        J j; j.str("zone", zone).num("epochSeconds", t).str("utc", iso(t)).num("basic_offset", cur.off).num("basic_delta", cur.delta).str("basic_abbrev", cur.ab)
            .num("other_offset", x.off).num("other_delta", x.delta).str("other_abbrev", x.ab);
        witness(PROP + ":" + crossWhat, "the same zone answers differently through the other processor", j);
        if (++bad > 40) return bad;
      }
    }
    if (havePrev && !same(prev, cur) && step > 1) {
      // bisect AceTime's own change point to the second; each probe is compared with zic
      int64_t a = prevT, b = t; Triple ta = prev;
      while (b - a > 1) {
        int64_t m = a + (b - a) / 2;
        Triple tm = query(tz, (acetime_t) m);
        if (same(tm, ta)) a = m; else b = m;
      }
      CNT.add("sweep.observed_changes");
      for (int64_t p = b - 2; p <= b + 1; p++) if (p >= cfg.lo && p < cfg.hi) if (!check_point(zone, tz, oc, p, true, &segsSeen)) { if (++bad > 40) return bad; }
      // is b an oracle breakpoint?
      bool isBp = false;
      for (uint32_t k = 0; k < oc.n; k++) if (oc.s[k].start == b) isBp = true;
      if (!isBp) {
        // several changes may hide between two grid points; only flag when probes agreed everywhere (cannot happen) -> informational
        CNT.add("sweep.changes_not_on_breakpoint");
      }
    }
    prev = cur; havePrev = true; prevT = t;
  }
  // second-level neighbourhoods of every oracle breakpoint and every UTC year boundary
  if (!cfg.allSeconds) {
    std::vector<int64_t> centers;
    for (uint32_t k = 1; k < oc.n; k++) if (oc.s[k].start >= cfg.lo - cfg.nbhd && oc.s[k].start < cfg.hi + cfg.nbhd) centers.push_back(oc.s[k].start);
    for (int y = 2000; y <= 2050; y++) centers.push_back(days_from_civil(y, 1, 1) * 86400);
    for (int64_t c : centers) {
      CNT.add("sweep.neighbourhoods");
      for (int64_t t = c - cfg.nbhd; t <= c + cfg.nbhd; t++) {
        if (t < cfg.lo || t >= cfg.hi) continue;
        if (!check_point(zone, tz, oc, t, (t - c) % 7 == 0 || (t >= c - 2 && t <= c + 2), &segsSeen)) { if (++bad > 40) return bad; }
      }
    }
  }
  // descending sweep: year caches refill in the other order
  if (cfg.descending) {
    int64_t dstep = 6 * 3600 + 60;
    for (int64_t t = cfg.hi - 1; t >= cfg.lo; t -= dstep) { if (!check_point(zone, tz, oc, t, false, nullptr)) { if (++bad > 40) return bad; } CNT.add("sweep.descending_probes"); }
    for (uint32_t k = oc.n - 1; k >= 1; k--) for (int d = 1; d >= -1; d--) {
      int64_t t = oc.s[k].start + d; if (t < cfg.lo || t >= cfg.hi) continue;
      if (!check_point(zone, tz, oc, t, true, nullptr)) { if (++bad > 40) return bad; }
      CNT.add("sweep.descending_probes");
    }
  }
  CNT.add("sweep.segments_crossed", (long long) segsSeen.size());
  return bad;
}

extern "C" long long aceTimeVerifDropped;   // guarded hook sink (shim.cpp)

// friend of BasicZoneProcessor: structural invariant of the 5-slot cache at quiescent points
class BasicZoneProcessorTest_init {
  public:
    static bool cacheOk(const BasicZoneProcessor& p, int* n, std::string* why) {
      *n = p.mNumTransitions;
      if (p.mNumTransitions > 5) { *why = "mNumTransitions > 5"; return false; }
      for (uint8_t i = 1; i < p.mNumTransitions; i++) {
        if (p.mTransitions[i - 1].startEpochSeconds > p.mTransitions[i].startEpochSeconds) { *why = "cache not sorted by start time"; return false; }
      }
      return true;
    }
};

static const extended::ZoneInfo* findExt(const char* name) {
  for (uint16_t i = 0; i < VERIF_EXT_NS::kZoneRegistrySize; i++) if (!strcmp(VERIF_EXT_NS::kZoneRegistry[i]->name, name)) return VERIF_EXT_NS::kZoneRegistry[i];
  return nullptr;
}

int main(int argc, char** argv) {
  Args a(argc, argv);
  std::string db = a.get("db", "extended");
  PROP = a.get("prop", "c01");
  if (!ORA.load(a.get("oracle"))) { fprintf(stderr, "cannot load oracle file\n"); return 3; }
  SweepCfg cfg;
  cfg.gridMinutes = (int) a.num("grid", 5);
  cfg.nbhd = (int) a.num("nbhd", 120);
  cfg.descending = !a.has("nodesc");
  cfg.fieldsEvery = (int) a.num("fields-every", 7);
  int startYear = (int) a.num("start-year", 2000), untilYear = (int) a.num("until-year", 2050);
  cfg.lo = days_from_civil(startYear, 1, 1) * 86400; cfg.hi = days_from_civil(untilYear, 1, 1) * 86400;
  if (cfg.hi > INT32_MAX) cfg.hi = INT32_MAX;
  int shard = a.shard(), nsh = a.nshards();
  // zones that get the all-seconds sweep (indices, comma separated)
  std::set<int> allsec; { std::string s = a.get("allsec"); size_t p = 0; while (p < s.size()) { allsec.insert(atoi(s.c_str() + p)); size_t q = s.find(',', p); if (q == std::string::npos) break; p = q + 1; } }
  bool managed = a.has("managed");
  bool cross = a.has("cross");
  std::vector<std::string> zoneNames;
  long long zonesDone = 0;
  uint16_t nz = db == "basic" ? VERIF_BASIC_NS::kZoneRegistrySize : VERIF_EXT_NS::kZoneRegistrySize;
  for (uint16_t i = 0; i < nz; i++) {
    if (i % nsh != shard) continue;
    cfg.allSeconds = allsec.count(i) > 0;
    long long bad = 0;
    const char* name;
    int highWater = -1, bufSize = -1;
    if (db == "basic") {
      const basic::ZoneInfo* zi = VERIF_BASIC_NS::kZoneRegistry[i]; name = zi->name;
      const OZone* oz = ORA.find(name);
      if (!oz) { J j; j.str("zone", name); witness(PROP + ":zone-missing-from-oracle", "zone has no oracle entry", j); continue; }
      BasicZoneProcessor* proc = new BasicZoneProcessor();
      BasicZoneManager<1>* mgr = managed ? new BasicZoneManager<1>(VERIF_BASIC_NS::kZoneRegistrySize, VERIF_BASIC_NS::kZoneRegistry) : nullptr;
      TimeZone tz = managed ? mgr->createForZoneIndex(i) : TimeZone::forZoneInfo(zi, proc);
      ExtendedZoneProcessor* xproc = nullptr; TimeZone xtz; const TimeZone* cr = nullptr;
      if (cross) { const extended::ZoneInfo* xi = findExt(name); if (xi) { xproc = new ExtendedZoneProcessor(); xtz = TimeZone::forZoneInfo(xi, xproc); cr = &xtz; CNT.add("sweep.cross_zones"); } }
      long long dropped0 = aceTimeVerifDropped;
      bad = sweep_zone(name, tz, oz, cfg, cr, "basic-extended-disagree");
      if (!managed) {
        // every year 1999..2050 filled once more (ascending then descending); invariant read through the friend class
        for (int pass = 0; pass < 2; pass++) for (int yy = 0; yy <= 51; yy++) {
          int y = pass ? 2050 - yy : 1999 + yy;
          int64_t t = days_from_civil(y, 7, 1) * 86400; if (t > INT32_MAX) continue;
          tz.getUtcOffset((acetime_t) t);
          int nt = 0; std::string why;
          CNT.add("sweep.cache_fills_checked");
          if (!BasicZoneProcessorTest_init::cacheOk(*proc, &nt, &why)) { J j; j.str("zone", name).num("year", y).num("numTransitions", nt); witness(PROP + ":basic-cache-invariant", why, j); bad++; }
          CNT.maxi("sweep.max_basic_transitions", nt);
        }
      }
      long long dropped = aceTimeVerifDropped - dropped0;
      CNT.add("sweep.hook_checked_zones");
      if (dropped) { J j; j.str("zone", name).num("dropped", dropped); witness(PROP + ":basic-transition-dropped", "BasicZoneProcessor dropped a transition because its five cache slots were full", j); bad++; }
      delete proc; delete mgr; delete xproc;
    } else {
      const extended::ZoneInfo* zi = VERIF_EXT_NS::kZoneRegistry[i]; name = zi->name;
      const OZone* oz = ORA.find(name);
      if (!oz) { J j; j.str("zone", name); witness(PROP + ":zone-missing-from-oracle", "zone has no oracle entry", j); continue; }
      ExtendedZoneProcessor* proc = new ExtendedZoneProcessor();
      ExtendedZoneManager<1>* mgr = managed ? new ExtendedZoneManager<1>(VERIF_EXT_NS::kZoneRegistrySize, VERIF_EXT_NS::kZoneRegistry) : nullptr;
      TimeZone tz = managed ? mgr->createForZoneIndex(i) : TimeZone::forZoneInfo(zi, proc);
      proc->resetTransitionHighWater();
      bad = sweep_zone(name, tz, oz, cfg, nullptr, "");
      if (!managed) { highWater = proc->getTransitionHighWater(); bufSize = zi->transitionBufSize; CNT.maxi("sweep.max_high_water", highWater); }
      delete proc; delete mgr;
    }
    zonesDone++;
    CNT.add("sweep.zones");
    if (cfg.allSeconds) CNT.add("sweep.zones_all_seconds");
    if (bad) CNT.add("sweep.zones_with_mismatch");
    if (zonesDone <= 2) { J j; j.str("zone", name).num("grid_minutes", cfg.gridMinutes).num("all_seconds", cfg.allSeconds).num("high_water", highWater).num("buf_size", bufSize); sample(j, 3); }
  }
  CNT.add("sweep.fields_checked", g_fields_checked);
  CNT.flush();
  return 0;
}
