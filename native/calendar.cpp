// calendar driver: pure arithmetic / print-parse / mutation sweeps (C06, C15, C17, C18 C++ side).
#include "vcommon.h"
#include <AceTime.h>
#include <array>

using namespace ace_time;
using namespace verif;

static std::string fmtDate(int64_t y, unsigned m, unsigned d) {
  char b[48]; snprintf(b, sizeof b, "%04lld-%02u-%02u", (long long) y, m, d); return b;
}

// --------------------------------------------------------------------------- C06
static void c06_days() {
  // all days 1873-01-01 .. 2127-12-31
  int64_t first = days_from_civil(1873, 1, 1), last = days_from_civil(2127, 12, 31);
  LocalDate prev = LocalDate::forError();
  for (int64_t z = first; z <= last; z++) {
    int64_t y; unsigned m, d; civil_from_days(z, y, m, d);
    CNT.add("c06.days");
    LocalDate ld = LocalDate::forComponents((int16_t) y, (uint8_t) m, (uint8_t) d);
    bool bad = false;
    std::string why;
    if (ld.isError()) { bad = true; why = "valid date flagged isError"; }
    else if (ld.toEpochDays() != (acetime_t) z) { bad = true; why = "toEpochDays != proleptic Gregorian day count"; }
    else if (ld.toUnixDays() != (acetime_t) (z + 10957)) { bad = true; why = "toUnixDays != epochDays + 10957"; }
    else {
      LocalDate back = LocalDate::forEpochDays((acetime_t) z);
      LocalDate backU = LocalDate::forUnixDays((acetime_t) (z + 10957));
      if (back.year() != y || back.month() != m || back.day() != d || back != ld) { bad = true; why = "forEpochDays(toEpochDays) != identity"; }
      else if (backU != ld) { bad = true; why = "forUnixDays mismatch"; }
      else if (ld.dayOfWeek() != oracle_dow(z)) { bad = true; why = "dayOfWeek wrong"; }
      else if (LocalDate::isLeapYear((int16_t) y) != oracle_leap(y)) { bad = true; why = "isLeapYear wrong"; }
      else if (LocalDate::daysInMonth((int16_t) y, (uint8_t) m) != oracle_dim(y, m)) { bad = true; why = "daysInMonth wrong"; }
      else if (ld.year() != y || ld.yearTiny() != (int8_t) (y - 2000)) { bad = true; why = "year accessor wrong"; }
    }
    if (!bad && z > first) {
      // prev + 1 day == ld ; ld - 1 day == prev  (1873-01-01 has no valid predecessor)
      LocalDate a = prev; local_date_mutation::incrementOneDay(a);
      LocalDate b = ld; local_date_mutation::decrementOneDay(b);
      if (a != ld) { bad = true; why = "incrementOneDay(prev) != next calendar day"; }
      else if (b != prev) { bad = true; why = "decrementOneDay(day) != previous calendar day"; }
      else if (prev.compareTo(ld) != -1 || ld.compareTo(prev) != 1 || ld.compareTo(ld) != 0) { bad = true; why = "LocalDate::compareTo disagrees with calendar order"; }
    }
    // seconds conversions only where 86400*days is representable (C09 owns the rest)
    if (!bad && z >= -24855 && z <= 24855) {
      acetime_t es = ld.toEpochSeconds();
      if (es != (acetime_t) (z * 86400)) { bad = true; why = "LocalDate::toEpochSeconds != 86400*days"; }
      else if (LocalDate::forEpochSeconds(es) != ld || (z < 24855 && LocalDate::forEpochSeconds(es + 86399) != ld)) { bad = true; why = "LocalDate::forEpochSeconds not floor to day"; }
      CNT.add("c06.days_seconds_checked");
    }
    if (bad) {
      J j; j.str("date", fmtDate(y, m, d)).num("epochDays", z).num("got_epochDays", ld.toEpochDays()).num("got_dow", ld.dayOfWeek());
      witness("c06:days:" + why, why, j);
    }
    if (z % 15013 == 0) { J j; j.str("kind", "day").str("date", fmtDate(y, m, d)).num("epochDays", z).num("dow", ld.dayOfWeek()); sample(j); }
    prev = ld;
  }
  // isYearValid over every int16 year: exactly the documented interval [1873, 2127]
  for (int y = -32768; y <= 32767; y++) {
    CNT.add("c06.year_validity_cases");
    if (LocalDate::isYearValid((int16_t) y) != (y >= 1873 && y <= 2127)) { J j; j.num("year", y); witness("c06:isYearValid-wrong", "isYearValid differs from the documented interval [1873, 2127]", j); }
    // every factory that takes a full year: error exactly outside the interval, the year kept inside it
    bool in = y >= 1873 && y <= 2127;
    LocalDate fd = LocalDate::forComponents((int16_t) y, 6, 15);
    LocalDateTime fdt = LocalDateTime::forComponents((int16_t) y, 6, 15, 12, 0, 0);
    OffsetDateTime fo = OffsetDateTime::forComponents((int16_t) y, 6, 15, 12, 0, 0, TimeOffset::forHours(1));
    ZonedDateTime fz = ZonedDateTime::forComponents((int16_t) y, 6, 15, 12, 0, 0, TimeZone::forUtc());
    const char* which = nullptr;
    if (fd.isError() == in || (in && fd.year() != y)) which = "LocalDate";
    else if (fdt.isError() == in || (in && fdt.year() != y) || (!in && fdt.toEpochSeconds() != LocalDate::kInvalidEpochSeconds)) which = "LocalDateTime";
    else if (fo.isError() == in || (in && fo.year() != y) || (!in && fo.toEpochSeconds() != LocalDate::kInvalidEpochSeconds)) which = "OffsetDateTime";
    else if (fz.isError() == in || (in && fz.year() != y) || (!in && fz.toEpochSeconds() != LocalDate::kInvalidEpochSeconds)) which = "ZonedDateTime";
    if (which) { J j; j.num("year", y).str("factory", which); witness("c06:year-out-of-range-not-error", "forComponents with a year outside 1873..2127 is not flagged (or a valid year is)", j); }
  }
  // dates outside the year range are errors; sentinel behaviour
  for (int y : {-32768, -1, 0, 1872, 2128, 9999, 32767}) {
    LocalDate e = LocalDate::forComponents((int16_t) y, 6, 15);
    CNT.add("c06.out_of_range_years");
    if (!e.isError() || e.toEpochDays() != LocalDate::kInvalidEpochDays || e.toEpochSeconds() != LocalDate::kInvalidEpochSeconds) {
      J j; j.num("year", y); witness("c06:year-out-of-range-not-error", "year outside 1873..2127 not flagged", j);
    }
  }
  LocalDate e1 = LocalDate::forEpochDays(LocalDate::kInvalidEpochDays);
  LocalDate e2 = LocalDate::forEpochSeconds(LocalDate::kInvalidEpochSeconds);
  LocalDate e3 = LocalDate::forUnixDays(LocalDate::kInvalidEpochDays);
  LocalDate e4 = LocalDate::forUnixSeconds(LocalDate::kInvalidEpochSeconds);
  if (!e1.isError() || !e2.isError() || !e3.isError() || !e4.isError() || !LocalDate::forError().isError()) {
    J j; witness("c06:sentinel-not-error", "sentinel epoch days/seconds not flagged", j);
  }
}

static bool oracle_time_valid(unsigned h, unsigned m, unsigned s) {
  if (h < 24 && m < 60 && s < 60) return true;
  return h == 24 && m == 0 && s == 0;   // documented exception
}

static void c06_bytes(int shard, int nshards) {
  // all 2^24 (h,m,s) triples
  for (unsigned h = shard; h < 256; h += nshards) {
    for (unsigned m = 0; m < 256; m++) for (unsigned s = 0; s < 256; s++) {
      LocalTime lt = LocalTime::forComponents((uint8_t) h, (uint8_t) m, (uint8_t) s);
      bool valid = oracle_time_valid(h, m, s);
      CNT.add("c06.time_triples");
      bool bad = false; std::string why;
      if (lt.isError() == valid) { bad = true; why = "LocalTime::isError disagrees with documented validity"; }
      else if (valid && lt.toSeconds() != (acetime_t) (h * 3600 + m * 60 + s)) { bad = true; why = "LocalTime::toSeconds wrong"; }
      else if (!valid && lt.toSeconds() != LocalTime::kInvalidSeconds) { bad = true; why = "invalid LocalTime::toSeconds not sentinel"; }
      else if (valid && h < 24) {
        LocalTime back = LocalTime::forSeconds(lt.toSeconds());
        if (back != lt) { bad = true; why = "LocalTime::forSeconds(toSeconds) != identity"; }
        CNT.add("c06.time_valid");
      }
      if (bad) { J j; j.num("h", h).num("m", m).num("s", s).num("isError", lt.isError()).num("toSeconds", lt.toSeconds()); witness("c06:time:" + why, why, j); }
    }
  }
  // all (yearTiny, month, day) triples: isError == documented predicate
  for (int yt = -128 + shard; yt < 128; yt += nshards) {
    for (unsigned m = 0; m < 256; m++) for (unsigned d = 0; d < 256; d++) {
      LocalDate ld = LocalDate::forTinyComponents((int8_t) yt, (uint8_t) m, (uint8_t) d);
      bool valid_doc = yt != -128 && m >= 1 && m <= 12 && d >= 1 && d <= 31;
      CNT.add("c06.date_triples");
      if (ld.isError() == valid_doc) {
        J j; j.num("yearTiny", yt).num("month", m).num("day", d).num("isError", ld.isError());
        witness("c06:date-isError-disagrees", "LocalDate::isError disagrees with documented predicate", j);
      }
      if (valid_doc && d > oracle_dim(yt + 2000, m)) CNT.add("c06.info_day_beyond_month_not_flagged");
      // error dates convert to sentinels
      if (!valid_doc && (ld.toEpochDays() != LocalDate::kInvalidEpochDays)) {
        J j; j.num("yearTiny", yt).num("month", m).num("day", d);
        witness("c06:error-date-toEpochDays-not-sentinel", "error date converts to a non-sentinel", j);
      }
    }
  }
  // the composite types: "invalid field combinations are flagged by isError" whichever half is bad. One component at a
  // time takes every byte value (the others valid), plus the boundary products; an error value converts to the sentinel.
  if (shard == 0) {
    TimeZone utc = TimeZone::forUtc();
    std::vector<std::array<unsigned, 5>> combos;       // month, day, hour, minute, second
    for (int comp = 0; comp < 5; comp++) for (unsigned v = 0; v < 256; v++) { std::array<unsigned, 5> c = {{3, 10, 2, 30, 15}}; c[comp] = v; combos.push_back(c); }
    for (unsigned mo : {0u, 1u, 12u, 13u}) for (unsigned d : {0u, 1u, 31u, 32u}) for (unsigned h : {0u, 23u, 24u, 25u}) for (unsigned mi : {0u, 59u, 60u}) for (unsigned se : {0u, 59u, 60u})
      combos.push_back({{mo, d, h, mi, se}});
    for (auto& c : combos) {
      bool dateOk = c[0] >= 1 && c[0] <= 12 && c[1] >= 1 && c[1] <= 31;
      bool valid = dateOk && oracle_time_valid(c[2], c[3], c[4]);
      LocalDateTime ldt = LocalDateTime::forComponents(2019, (uint8_t) c[0], (uint8_t) c[1], (uint8_t) c[2], (uint8_t) c[3], (uint8_t) c[4]);
      OffsetDateTime odt = OffsetDateTime::forComponents(2019, (uint8_t) c[0], (uint8_t) c[1], (uint8_t) c[2], (uint8_t) c[3], (uint8_t) c[4], TimeOffset::forHours(-8));
      ZonedDateTime zdt = ZonedDateTime::forComponents(2019, (uint8_t) c[0], (uint8_t) c[1], (uint8_t) c[2], (uint8_t) c[3], (uint8_t) c[4], utc);
      CNT.add("c06.composite_field_combinations", 3);
      const char* which = nullptr;
      if (ldt.isError() == valid || (!valid && ldt.toEpochSeconds() != LocalDate::kInvalidEpochSeconds)) which = "LocalDateTime";
      else if (odt.isError() == valid || (!valid && odt.toEpochSeconds() != LocalDate::kInvalidEpochSeconds)) which = "OffsetDateTime";
      else if (zdt.isError() == valid || (!valid && zdt.toEpochSeconds() != LocalDate::kInvalidEpochSeconds)) which = "ZonedDateTime";
      if (which) { J j; j.str("type", which).num("month", c[0]).num("day", c[1]).num("hour", c[2]).num("minute", c[3]).num("second", c[4]).num("documented_valid", valid);
        witness("c06:composite-isError-disagrees", "isError of a date-time built from components disagrees with the documented validity of its fields (or an error value converts to a non-sentinel)", j); }
    }
    // ... and a valid value edited into an invalid one through a setter
    LocalDateTime ed = LocalDateTime::forComponents(2019, 3, 10, 2, 30, 15); ed.hour(25);
    OffsetDateTime eo = OffsetDateTime::forComponents(2019, 3, 10, 2, 30, 15, TimeOffset::forHours(1)); eo.minute(60);
    if (!ed.isError() || !eo.isError()) { J j; j.num("ldt_isError", ed.isError()).num("odt_isError", eo.isError()); witness("c06:composite-isError-disagrees", "a date-time edited into an invalid time is not flagged", j); }
  }
  LocalTime et = LocalTime::forSeconds(LocalTime::kInvalidSeconds);
  if (!et.isError() || !LocalTime::forError().isError()) { J j; witness("c06:time-sentinel-not-error", "LocalTime sentinel not error", j); }
}

static void check_epoch_second(int64_t t) {
  acetime_t es = (acetime_t) t;
  LocalDateTime ldt = LocalDateTime::forEpochSeconds(es);
  Civil c = civil_from_seconds(t);
  CNT.add("c06.epoch_seconds");
  bool bad = false; std::string why;
  if (ldt.isError()) { bad = true; why = "forEpochSeconds of a non-sentinel value is error"; }
  else if (ldt.year() != c.y || ldt.month() != c.mo || ldt.day() != c.d || ldt.hour() != c.h || ldt.minute() != c.mi || ldt.second() != c.s) { bad = true; why = "forEpochSeconds fields != proleptic Gregorian fields"; }
  else if (ldt.toEpochSeconds() != es) { bad = true; why = "toEpochSeconds(forEpochSeconds(t)) != t"; }
  else if (ldt.month() < 1 || ldt.month() > 12 || ldt.day() < 1 || ldt.day() > oracle_dim(c.y, c.mo) || ldt.hour() > 23 || ldt.minute() > 59 || ldt.second() > 59) { bad = true; why = "fields out of range"; }
  else {
    LocalDate ld = LocalDate::forEpochSeconds(es);
    if (ld != ldt.localDate()) { bad = true; why = "LocalDate::forEpochSeconds != LocalDateTime date part"; }
    else if (ldt.localTime() != LocalTime::forComponents((uint8_t) c.h, (uint8_t) c.mi, (uint8_t) c.s) || ldt.localTime().toSeconds() != (acetime_t) (c.h * 3600 + c.mi * 60 + c.s)) { bad = true; why = "LocalDateTime time part != time of day"; }
    else if (LocalDateTime::forComponents((int16_t) c.y, (uint8_t) c.mo, (uint8_t) c.d, (uint8_t) c.h, (uint8_t) c.mi, (uint8_t) c.s) != ldt) { bad = true; why = "forComponents(fields) != forEpochSeconds(t)"; }
    else if (OffsetDateTime::forLocalDateTimeAndOffset(ldt, TimeOffset()).toEpochSeconds() != es || OffsetDateTime::forLocalDateTimeAndOffset(ldt, TimeOffset()).localTime() != ldt.localTime()) { bad = true; why = "forLocalDateTimeAndOffset(ldt, +00:00) is not the same instant"; }
    else if (ldt.dayOfWeek() != oracle_dow(days_from_civil(c.y, c.mo, c.d))) { bad = true; why = "dayOfWeek wrong"; }
    else {
      int64_t u = t + 946684800LL;
      if (u <= INT32_MAX) {
        LocalDateTime lu = LocalDateTime::forUnixSeconds((acetime_t) u);
        if (lu != ldt) { bad = true; why = "forUnixSeconds(t+946684800) != forEpochSeconds(t)"; }
        else if (ldt.toUnixSeconds() != (acetime_t) u) { bad = true; why = "toUnixSeconds - toEpochSeconds != 946684800"; }
        CNT.add("c06.unix_checked");
      }
    }
  }
  if (bad) {
    J j; j.num("epochSeconds", t).num("got_year", ldt.year()).num("got_month", ldt.month()).num("got_day", ldt.day())
        .num("got_hour", ldt.hour()).num("got_minute", ldt.minute()).num("got_second", ldt.second()).num("got_back", ldt.toEpochSeconds());
    witness("c06:seconds:" + why, why, j);
  }
}

static void c06_secs(int shard, int nshards, long long stride, bool full, bool edge) {
  // domain: INT32_MIN+1 .. INT32_MAX.  `edge` = include the partial first day,
  // where 86400*days leaves int32 (kept separate so that the san build can skip it).
  int64_t lo = (int64_t) INT32_MIN + 1, hi = INT32_MAX;
  int64_t safe_lo = -24855LL * 86400;      // first full day boundary inside int32
  if (!edge) lo = safe_lo;
  if (full) {
    int64_t span = hi - lo + 1;
    int64_t a = lo + span * shard / nshards, b = lo + span * (shard + 1) / nshards;
    for (int64_t t = a; t < b; t++) check_epoch_second(t);
  } else {
    int64_t n = 0;
    for (int64_t t = lo + (int64_t) shard * stride; t <= hi; t += stride * nshards, n++) {
      check_epoch_second(t);
      if (n % 50000 == 0) { J j; Civil c = civil_from_seconds(t); j.str("kind", "epochSeconds").num("t", t).str("date", fmtDate(c.y, c.mo, c.d)).num("h", c.h).num("mi", c.mi).num("s", c.s); sample(j); }
    }
    if (shard == 0) {
      // every day boundary +-2 s, extremes
      for (int64_t day = -24855; day <= 24855; day++) for (int dt = -2; dt <= 2; dt++) {
        int64_t t = day * 86400 + dt;
        if (t >= lo && t <= hi) check_epoch_second(t);
      }
      for (int64_t t = hi - 100000; t <= hi; t++) check_epoch_second(t);
      for (int64_t t = lo; t <= lo + 100000; t++) check_epoch_second(t);
    }
  }
  LocalDateTime e = LocalDateTime::forEpochSeconds(LocalDate::kInvalidEpochSeconds);
  LocalDateTime eu = LocalDateTime::forUnixSeconds(LocalDate::kInvalidEpochSeconds);
  if (!e.isError() || !eu.isError() || e.toEpochSeconds() != LocalDate::kInvalidEpochSeconds || !LocalDateTime::forError().isError()) {
    J j; witness("c06:datetime-sentinel-not-error", "sentinel epoch seconds did not give an error LocalDateTime", j);
  }
}

// --------------------------------------------------------------------------- C17
static void c17() {
  // TimePeriod: all second counts -921599..921599
  TimePeriod prevp(0);
  for (int32_t s = -921599; s <= 921599; s++) {
    TimePeriod p(s);
    CNT.add("c17.period_seconds");
    bool bad = false; std::string why;
    if (p.toSeconds() != s) { bad = true; why = "TimePeriod(seconds).toSeconds() != seconds"; }
    else if (p.minute() >= 60 || p.second() >= 60) { bad = true; why = "TimePeriod minute/second not below 60"; }
    else if ((s < 0 && p.sign() != -1) || (s > 0 && p.sign() != 1)) { bad = true; why = "TimePeriod sign wrong"; }
    else {
      TimePeriod q = p; time_period_mutation::negate(q);
      if (q.toSeconds() != -s || q.hour() != p.hour() || q.minute() != p.minute() || q.second() != p.second()) { bad = true; why = "negate changes more than the sign"; }
      TimePeriod r = q; time_period_mutation::negate(r);
      if (!bad && !(r == p)) { bad = true; why = "negate twice != identity"; }
      // component constructor round trip
      TimePeriod c(p.hour(), p.minute(), p.second(), p.sign());
      if (!bad && (c.toSeconds() != s || !(c == p))) { bad = true; why = "component constructor disagrees"; }
      if (!bad && s > -921599) {
        if (prevp.compareTo(p) != -1 || p.compareTo(prevp) != 1 || p.compareTo(p) != 0) { bad = true; why = "compareTo disagrees with signed length (adjacent)"; }
      }
    }
    if (bad) { J j; j.num("seconds", s).num("h", p.hour()).num("m", p.minute()).num("s", p.second()).num("sign", p.sign()).num("toSeconds", p.toSeconds()); witness("c17:period:" + why, why, j); }
    prevp = p;
  }
  // compareTo on seeded distant pairs
  Rng rng(12345 + atoll(getenv("VERIF_SEED") ? getenv("VERIF_SEED") : "0"));
  for (int i = 0; i < 2000000; i++) {
    int32_t a = (int32_t) rng.range(-921599, 921599), b = (int32_t) rng.range(-921599, 921599);
    int want = a < b ? -1 : (a == b ? 0 : 1);
    CNT.add("c17.period_pairs");
    if (TimePeriod(a).compareTo(TimePeriod(b)) != want) { J j; j.num("a", a).num("b", b); witness("c17:period-compareTo", "compareTo disagrees with signed length", j); }
    if (i < 3) { J j; j.str("kind", "period-pair").num("a", a).num("b", b).num("compareTo", TimePeriod(a).compareTo(TimePeriod(b))); sample(j); }
  }
  // compareTo on periods built from components with every documented sign value (>= 0 counts as +1, < 0 as -1),
  // zero-length periods of either sign included, and on negated periods
  {
    static const int32_t lens[] = {0, 1, 2, 59, 60, 61, 3599, 3600, 3601, 86399, 86400, 460800, 921598, 921599};
    static const int8_t signs[] = {-128, -2, -1, 0, 1, 2, 127};
    for (int32_t la : lens) for (int8_t sa : signs) for (int32_t lb : lens) for (int8_t sb : signs) {
      TimePeriod a((uint8_t) (la / 3600), (uint8_t) (la / 60 % 60), (uint8_t) (la % 60), sa);
      TimePeriod b((uint8_t) (lb / 3600), (uint8_t) (lb / 60 % 60), (uint8_t) (lb % 60), sb);
      int32_t va = sa >= 0 ? la : -la, vb = sb >= 0 ? lb : -lb;
      int want = va < vb ? -1 : (va == vb ? 0 : 1);
      CNT.add("c17.period_component_pairs");
      if (va == 0 && vb == 0 && (sa < 0) != (sb < 0)) CNT.add("c17.period_zero_pairs_of_opposite_sign");
      if (a.toSeconds() != va || a.compareTo(b) != want) { J j; j.num("a_len", la).num("a_sign", sa).num("b_len", lb).num("b_sign", sb).num("got", a.compareTo(b)).num("want", want); witness("c17:period-compareTo-components", "compareTo of component-built periods disagrees with signed length", j); }
      TimePeriod na = a; time_period_mutation::negate(na);
      if (sa != -128) {
        int32_t vna = -sa >= 0 ? la : -la;   // negate flips the sign byte; a sign byte of 0 stays 0 (counts as +)
        int w2 = vna < vb ? -1 : (vna == vb ? 0 : 1);
        if (na.toSeconds() != vna || na.compareTo(b) != w2) { J j; j.num("a_len", la).num("a_sign", sa).num("b_len", lb).num("b_sign", sb).num("got", na.compareTo(b)).num("want", w2); witness("c17:period-compareTo-negated", "compareTo of a negated period disagrees with signed length", j); }
      }
    }
  }
  // TimePeriod increment helpers from every byte value
  static const int kSigns[] = {1, -1, 0, 127, -128, 2, -2};
  for (unsigned v = 0; v < 256; v++) for (int sg : kSigns) for (unsigned sec : {0u, 30u, 59u}) for (unsigned other = 0; other < 60; other += (sg == 1 || sg == -1) ? 1 : 13) {
    // one helper at a time, the other fields at arbitrary legal values and either sign: only the field named moves
    TimePeriod ph((uint8_t) v, (uint8_t) other, (uint8_t) sec, (int8_t) sg);
    time_period_mutation::incrementHour(ph);
    TimePeriod pm((uint8_t) (other % 24), (uint8_t) v, (uint8_t) sec, (int8_t) sg);
    time_period_mutation::incrementMinute(pm);
    CNT.add("c17.increment_cases", 2);
    if (sg < 0) CNT.add("c17.increment_cases_on_negative_periods", 2);
    bool bad = ph.hour() > 23 || pm.minute() > 59 || (v < 24 && ph.hour() != (v + 1) % 24) || (v < 60 && pm.minute() != (v + 1) % 60)
        || ph.minute() != other || ph.second() != sec || ph.sign() != (int8_t) sg || pm.hour() != other % 24 || pm.second() != sec || pm.sign() != (int8_t) sg;
    if (bad) { J j; j.num("from", v).num("sign", sg).num("other_field", other).num("second", sec).num("hour_after_incrementHour", ph.hour()).num("minute_after_incrementMinute", pm.minute());
      witness("c17:period-increment-with-sign-or-other-fields", "TimePeriod incrementHour/incrementMinute leaves its interval, is not the cyclic successor, or moves another field (period of either sign, other fields set)", j); }
  }
  for (unsigned v = 0; v < 256; v++) {
    TimePeriod p((uint8_t) v, (uint8_t) v, 0);
    time_period_mutation::incrementHour(p);
    time_period_mutation::incrementMinute(p);
    CNT.add("c17.increment_cases", 2);
    if (p.hour() > 23) { J j; j.num("from", v).num("to", p.hour()); witness("c17:period-incrementHour-range", "TimePeriod incrementHour leaves 0..23", j); }
    if (p.minute() > 59) { J j; j.num("from", v).num("to", p.minute()); witness("c17:period-incrementMinute-range", "TimePeriod incrementMinute leaves 0..59", j); }
    if (v < 24 && p.hour() != (v + 1) % 24) { J j; j.num("from", v).num("to", p.hour()); witness("c17:period-incrementHour-succ", "TimePeriod incrementHour not cyclic successor", j); }
    if (v < 60 && p.minute() != (v + 1) % 60) { J j; j.num("from", v).num("to", p.minute()); witness("c17:period-incrementMinute-succ", "TimePeriod incrementMinute not cyclic successor", j); }
    for (unsigned limit = 1; limit < 256; limit++) {
      TimePeriod q((uint8_t) v, 0, 0);
      time_period_mutation::incrementHour(q, (uint8_t) limit);
      CNT.add("c17.increment_cases");
      if (q.hour() >= limit) { J j; j.num("from", v).num("limit", limit).num("to", q.hour()); witness("c17:period-incrementHour-limit", "incrementHour(limit) leaves 0..limit-1", j); }
      if (v < limit && q.hour() != (v + 1) % limit) { J j; j.num("from", v).num("limit", limit).num("to", q.hour()); witness("c17:period-incrementHour-limit-succ", "incrementHour(limit) not cyclic successor", j); }
    }
  }
  // TimeOffset: all int8 (hour, minute) pairs with consistent sign
  for (int h = -128; h <= 127; h++) for (int m = -128; m <= 127; m++) {
    if ((h > 0 && m < 0) || (h < 0 && m > 0)) continue;
    int total = h * 60 + m;
    if (total == -32768) continue;   // the error sentinel itself
    TimeOffset o = TimeOffset::forHourMinute((int8_t) h, (int8_t) m);
    CNT.add("c17.offset_pairs");
    bool bad = false; std::string why;
    if (o.toMinutes() != total) { bad = true; why = "forHourMinute minutes != 60*hour+minute"; }
    else if (o.toSeconds() != 60 * total) { bad = true; why = "toSeconds != 60*toMinutes"; }
    else if (m > -60 && m < 60 && total / 60 >= -128 && total / 60 <= 127) {
      int8_t hh, mm; o.toHourMinute(hh, mm);
      if (hh != h || mm != m) { bad = true; why = "toHourMinute(forHourMinute) != identity"; }
      CNT.add("c17.offset_roundtrip");
    }
    if (!bad && o.isZero() != (total == 0)) { bad = true; why = "isZero wrong"; }
    if (!bad && o.isError()) { bad = true; why = "non-sentinel offset flagged error"; }
    if (bad) { J j; j.num("hour", h).num("minute", m).num("toMinutes", o.toMinutes()); witness("c17:offset:" + why, why, j); }
  }
  for (int h = -128; h <= 127; h++) {
    TimeOffset o = TimeOffset::forHours((int8_t) h);
    CNT.add("c17.offset_hours");
    if (o.toMinutes() != h * 60) { J j; j.num("hours", h); witness("c17:offset-forHours", "forHours wrong", j); }
  }
  for (int mins = -32767; mins <= 32767; mins++) {
    TimeOffset o = TimeOffset::forMinutes((int16_t) mins);
    CNT.add("c17.offset_minutes");
    if (o.toMinutes() != mins || o.toSeconds() != 60 * mins || o.isError()) { J j; j.num("minutes", mins); witness("c17:offset-forMinutes", "forMinutes round trip wrong", j); }
  }
  if (!TimeOffset::forError().isError() || !TimeOffset::forMinutes(TimeOffset::kErrorMinutes).isError()) { J j; witness("c17:offset-error", "error offset not flagged", j); }
  // increment15Minutes from every -960..960
  for (int mins = -960; mins <= 960; mins++) {
    TimeOffset o = TimeOffset::forMinutes((int16_t) mins);
    time_offset_mutation::increment15Minutes(o);
    CNT.add("c17.inc15");
    int want = mins + 15 > 960 ? -960 : mins + 15;
    if (o.toMinutes() < -960 || o.toMinutes() > 960) { J j; j.num("from", mins).num("to", o.toMinutes()); witness("c17:inc15-range", "increment15Minutes leaves -16:00..+16:00", j); }
    else if (o.toMinutes() != want) { J j; j.num("from", mins).num("to", o.toMinutes()); witness("c17:inc15-step", "increment15Minutes not +15 / wrap to -16:00", j); }
  }
  {
    // 129-cycle from -960
    TimeOffset o = TimeOffset::forMinutes(-960);
    int steps = 0;
    do { time_offset_mutation::increment15Minutes(o); steps++; } while (o.toMinutes() != -960 && steps < 1000);
    CNT.add("c17.inc15_cycle_len", steps);
    if (steps != 129) { J j; j.num("cycle", steps); witness("c17:inc15-cycle", "increment15Minutes cycle from -16:00 is not 129 steps", j); }
  }
  // local_date_mutation on every date of the supported range: each field stays inside its interval (day within the
  // month's real length) and the result is the calendar successor / predecessor
  {
    int64_t first = days_from_civil(1873, 1, 1), last = days_from_civil(2127, 12, 31);
    for (int64_t z = first; z < last; z++) {
      int64_t y, y2; unsigned m, d, m2, d2; civil_from_days(z, y, m, d); civil_from_days(z + 1, y2, m2, d2);
      LocalDate a = LocalDate::forComponents((int16_t) y, (uint8_t) m, (uint8_t) d);
      local_date_mutation::incrementOneDay(a);
      LocalDate b = LocalDate::forComponents((int16_t) y2, (uint8_t) m2, (uint8_t) d2);
      local_date_mutation::decrementOneDay(b);
      CNT.add("c17.date_mutation_cases", 2);
      bool inA = a.month() >= 1 && a.month() <= 12 && a.day() >= 1 && a.day() <= oracle_dim(a.year(), a.month());
      bool inB = b.month() >= 1 && b.month() <= 12 && b.day() >= 1 && b.day() <= oracle_dim(b.year(), b.month());
      if (!inA || a.year() != y2 || a.month() != m2 || a.day() != d2) {
        J j; j.str("from", fmtDate(y, m, d)).num("to_year", a.year()).num("to_month", a.month()).num("to_day", a.day());
        witness(inA ? "c17:date-incrementOneDay-succ" : "c17:date-incrementOneDay-range", inA ? "incrementOneDay is not the next calendar day" : "incrementOneDay leaves a field outside its interval (a day the month does not have)", j);
      }
      if (!inB || b.year() != y || b.month() != m || b.day() != d) {
        J j; j.str("from", fmtDate(y2, m2, d2)).num("to_year", b.year()).num("to_month", b.month()).num("to_day", b.day());
        witness(inB ? "c17:date-decrementOneDay-pred" : "c17:date-decrementOneDay-range", inB ? "decrementOneDay is not the previous calendar day" : "decrementOneDay leaves a field outside its interval", j);
      }
    }
  }
  // the same helpers from dates whose fields are each inside their own interval but whose day the month does not have
  // (Feb 30, Apr 31: what zoned_date_time_mutation::incrementDay produces, day cycling 1..31 whatever the month): the fields
  // stay inside their documented intervals (month 1..12, day 1..31); no claim about which date comes out
  for (int y = 1873; y <= 2127; y++) for (unsigned m = 1; m <= 12; m++) for (unsigned d = oracle_dim(y, m) + 1; d <= 31; d++) {
    LocalDate a = LocalDate::forComponents((int16_t) y, (uint8_t) m, (uint8_t) d), b = a;
    local_date_mutation::incrementOneDay(a);
    local_date_mutation::decrementOneDay(b);
    CNT.add("c17.date_mutation_cases_from_days_the_month_does_not_have", 2);
    if (a.month() < 1 || a.month() > 12 || a.day() < 1 || a.day() > 31 || b.month() < 1 || b.month() > 12 || b.day() < 1 || b.day() > 31) {
      J j; j.str("from", fmtDate(y, m, d)).num("inc_month", a.month()).num("inc_day", a.day()).num("dec_month", b.month()).num("dec_day", b.day());
      witness("c17:date-mutation-range-from-overlong-day", "incrementOneDay/decrementOneDay from a day the month does not have leaves month 1..12 / day 1..31", j);
    }
  }
  // ZonedDateTime increment helpers from every byte value
  TimeZone utc = TimeZone::forUtc();
  for (unsigned v = 0; v < 256; v++) {
    ZonedDateTime z = ZonedDateTime::forComponents(2010, 6, 15, 10, 20, 30, utc);
    z.month((uint8_t) v); zoned_date_time_mutation::incrementMonth(z);
    z.day((uint8_t) v); zoned_date_time_mutation::incrementDay(z);
    z.hour((uint8_t) v); zoned_date_time_mutation::incrementHour(z);
    z.minute((uint8_t) v); zoned_date_time_mutation::incrementMinute(z);
    z.yearTiny((int8_t) v); zoned_date_time_mutation::incrementYear(z);
    CNT.add("c17.increment_cases", 5);
    if (z.month() < 1 || z.month() > 12) { J j; j.num("from", v).num("to", z.month()); witness("c17:zdt-incrementMonth-range", "incrementMonth leaves 1..12", j); }
    if (v >= 1 && v <= 12 && z.month() != v % 12 + 1) { J j; j.num("from", v).num("to", z.month()); witness("c17:zdt-incrementMonth-succ", "incrementMonth not cyclic successor", j); }
    if (z.day() < 1 || z.day() > 31) { J j; j.num("from", v).num("to", z.day()); witness("c17:zdt-incrementDay-range", "incrementDay leaves 1..31", j); }
    if (v >= 1 && v <= 31 && z.day() != v % 31 + 1) { J j; j.num("from", v).num("to", z.day()); witness("c17:zdt-incrementDay-succ", "incrementDay not cyclic successor", j); }
    if (z.hour() > 23) { J j; j.num("from", v).num("to", z.hour()); witness("c17:zdt-incrementHour-range", "incrementHour leaves 0..23", j); }
    if (v < 24 && z.hour() != (v + 1) % 24) { J j; j.num("from", v).num("to", z.hour()); witness("c17:zdt-incrementHour-succ", "incrementHour not cyclic successor", j); }
    if (z.minute() > 59) { J j; j.num("from", v).num("to", z.minute()); witness("c17:zdt-incrementMinute-range", "incrementMinute leaves 0..59", j); }
    if (v < 60 && z.minute() != (v + 1) % 60) { J j; j.num("from", v).num("to", z.minute()); witness("c17:zdt-incrementMinute-succ", "incrementMinute not cyclic successor", j); }
    // year: documented interval [0,99] of yearTiny.  From inside the interval the
    // result must be the cyclic successor.  From outside it (negative tiny
    // years, 100..127) the helper is recorded as information only: the
    // documentation defines the cycle, not a clamp.
    int8_t from = (int8_t) v;
    if (from >= 0 && from <= 99) {
      if (z.yearTiny() != (from + 1) % 100) { J j; j.num("from", from).num("to", z.yearTiny()); witness("c17:zdt-incrementYear-succ", "incrementYear not cyclic successor within [0,99]", j); }
    } else if (z.yearTiny() < 0 || z.yearTiny() > 99) {
      CNT.add("c17.info_incrementYear_from_outside_stays_outside");
    }
  }
  { J j; j.str("kind", "c17").str("note", "all 1843199 periods, all int8 hour/minute pairs, all offsets, all byte values per helper"); sample(j); }
}

// --------------------------------------------------------------------------- C15
static std::string fmt_ldt(int64_t y, unsigned mo, unsigned d, unsigned h, unsigned mi, unsigned s) {
  char b[64]; snprintf(b, sizeof b, "%04lld-%02u-%02uT%02u:%02u:%02u", (long long) y, mo, d, h, mi, s); return b;
}
static std::string fmt_off(int minutes) {
  char b[32]; int a = minutes < 0 ? -minutes : minutes;
  snprintf(b, sizeof b, "%c%02d:%02d", minutes < 0 ? '-' : '+', a / 60, a % 60); return b;
}

static void c15_check_ldt(int64_t y, unsigned mo, unsigned d, unsigned h, unsigned mi, unsigned s) {
  LocalDateTime ldt = LocalDateTime::forComponents((int16_t) y, mo, d, h, mi, s);
  StrPrint sp; ldt.printTo(sp);
  std::string want = fmt_ldt(y, mo, d, h, mi, s);
  CNT.add("c15.ldt");
  if (sp.buf != want) { J j; j.str("want", want).str("got", sp.buf); witness("c15:ldt-print", "LocalDateTime printed form is not yyyy-mm-ddThh:mm:ss", j); return; }
  LocalDateTime back = LocalDateTime::forDateString(sp.c_str());
  if (back != ldt || back.isError()) { J j; j.str("text", sp.buf); witness("c15:ldt-parse", "parsing the printed LocalDateTime does not give the original", j); }
}

static void c15(long long seedv) {
  Rng rng(777 + seedv);
  int64_t first = days_from_civil(1873, 1, 1), last = days_from_civil(2127, 12, 31);
  for (int64_t z = first; z <= last; z++) {
    int64_t y; unsigned m, d; civil_from_days(z, y, m, d);
    c15_check_ldt(y, m, d, 0, 0, 0);
    c15_check_ldt(y, m, d, 23, 59, 59);
    c15_check_ldt(y, m, d, 24, 0, 0);      // documented as a valid time of day (end of day): prints as written, parses back
    c15_check_ldt(y, m, d, rng.below(24), rng.below(60), rng.below(60));
    // LocalDate print: "yyyy-mm-dd Weekday"; parse of the date part
    LocalDate ld = LocalDate::forComponents((int16_t) y, m, d);
    StrPrint sp; ld.printTo(sp);
    static const char* names[] = {"", "Monday", "Tuesday", "Wednesday", "Thursday", "Friday", "Saturday", "Sunday"};
    std::string want = fmtDate(y, m, d) + " " + names[oracle_dow(z)];
    CNT.add("c15.ld");
    if (sp.buf != want) { J j; j.str("want", want).str("got", sp.buf); witness("c15:ld-print", "LocalDate printed form wrong", j); }
    LocalDate back = LocalDate::forDateString(fmtDate(y, m, d).c_str());
    if (back != ld) { J j; j.str("text", fmtDate(y, m, d)); witness("c15:ld-parse", "LocalDate parse wrong", j); }
  }
  // the public chainable parsers (they read one value and move the pointer on, so values can be strung together): same
  // value as the plain parser. Where the pointer is left is not part of the property and is not judged
  // (TimeOffset::forOffsetStringChainable steps one character past the minutes).
  for (int k = 0; k < 20000; k++) {
    int64_t z = rng.range(first, last); int64_t y; unsigned m, d; civil_from_days(z, y, m, d);
    unsigned h = rng.below(24), mi = rng.below(60), se = rng.below(60); int off = (int) rng.range(-5999, 5999);
    char b[64]; snprintf(b, sizeof b, "%04d-%02u-%02uT%02u:%02u:%02u%c%02d:%02d|tail", (int) y, m, d, h, mi, se, off < 0 ? '-' : '+', abs(off) / 60, abs(off) % 60);
    const char* p1 = b; LocalDate cd = LocalDate::forDateStringChainable(p1);
    const char* p2 = b + 11; LocalTime ct = LocalTime::forTimeStringChainable(p2);
    const char* p3 = b; LocalDateTime cdt = LocalDateTime::forDateStringChainable(p3);
    const char* p4 = b; OffsetDateTime co = OffsetDateTime::forDateStringChainable(p4);
    const char* p5 = b + 19; TimeOffset cf = TimeOffset::forOffsetStringChainable(p5);
    CNT.add("c15.chainable", 5);
    const char* bad = nullptr;
    if (cd != LocalDate::forComponents((int16_t) y, m, d)) bad = "LocalDate";
    else if (ct != LocalTime::forComponents(h, mi, se)) bad = "LocalTime";
    else if (cdt != LocalDateTime::forComponents((int16_t) y, m, d, h, mi, se)) bad = "LocalDateTime";
    else if (co != OffsetDateTime::forComponents((int16_t) y, m, d, h, mi, se, TimeOffset::forMinutes((int16_t) off))) bad = "OffsetDateTime";
    else if (cf.toMinutes() != off) bad = "TimeOffset";
    if (bad) { J j; j.str("type", bad).str("text", b); witness("c15:chainable-parse", "a chainable parser returns another value than the one printed", j); }
  }
  // all times of day on one date
  for (unsigned t = 0; t < 86400; t++) {
    c15_check_ldt(2021, 3, 4, t / 3600, t / 60 % 60, t % 60);
    LocalTime lt = LocalTime::forSeconds(t);
    StrPrint sp; lt.printTo(sp);
    char b[16]; snprintf(b, sizeof b, "%02u:%02u:%02u", t / 3600, t / 60 % 60, t % 60);
    CNT.add("c15.lt");
    if (sp.buf != b) { J j; j.str("want", b).str("got", sp.buf); witness("c15:lt-print", "LocalTime printed form wrong", j); }
    if (LocalTime::forTimeString(b) != lt) { J j; j.str("text", b); witness("c15:lt-parse", "LocalTime parse wrong", j); }
  }
  // all offsets within +-99:59
  for (int mins = -5999; mins <= 5999; mins++) {
    TimeOffset o = TimeOffset::forMinutes((int16_t) mins);
    StrPrint sp; o.printTo(sp);
    std::string want = fmt_off(mins);
    CNT.add("c15.offset");
    if (sp.buf != want) { J j; j.num("minutes", mins).str("want", want).str("got", sp.buf); witness("c15:offset-print", "TimeOffset printed form is not +hh:mm / -hh:mm", j); continue; }
    // int8 hour limit of forHourMinute: parse is defined for |hh| <= 99 via uint8 hour -> int8
    TimeOffset back = TimeOffset::forOffsetString(sp.c_str());
    if (back != o) { J j; j.num("minutes", mins).str("text", sp.buf).num("parsed", back.toMinutes()); witness("c15:offset-parse", "parsing the printed TimeOffset does not give the original", j); }
  }
  for (int mins = -32767; mins <= 32767; mins++) if (mins < -5999 || mins > 5999) CNT.add("c15.info_offsets_beyond_9959_not_judged");
  // OffsetDateTime: sampled dates x all quarter-hour offsets + negative sub-hour offsets
  std::vector<int> offs;
  for (int q = -64; q <= 64; q++) offs.push_back(q * 15);
  for (int mnt = -59; mnt <= -1; mnt++) offs.push_back(mnt);
  for (int mnt = 1; mnt <= 59; mnt++) offs.push_back(mnt);
  for (int64_t z = first; z <= last; z += 97) {
    int64_t y; unsigned m, d; civil_from_days(z, y, m, d);
    unsigned h = rng.below(24), mi = rng.below(60), s = rng.below(60);
    for (int off : offs) {
      OffsetDateTime odt = OffsetDateTime::forComponents((int16_t) y, m, d, h, mi, s, TimeOffset::forMinutes((int16_t) off));
      StrPrint sp; odt.printTo(sp);
      std::string want = fmt_ldt(y, m, d, h, mi, s) + fmt_off(off);
      CNT.add("c15.odt");
      if (sp.buf != want) { J j; j.str("want", want).str("got", sp.buf); witness("c15:odt-print", "OffsetDateTime printed form wrong", j); continue; }
      OffsetDateTime back = OffsetDateTime::forDateString(sp.c_str());
      if (back != odt || back.isError()) { J j; j.str("text", sp.buf); witness("c15:odt-parse", "parsing the printed OffsetDateTime does not give the original", j); }
      // ZonedDateTime::forDateString gives the same instant and offset
      ZonedDateTime zb = ZonedDateTime::forDateString(sp.c_str());
      if (zb.isError() || zb.timeOffset() != odt.timeOffset() || zb.localDateTime() != odt.localDateTime()) { J j; j.str("text", sp.buf); witness("c15:zdt-parse", "ZonedDateTime::forDateString != printed value", j); }
      if (CNT.c["c15.odt"] % 300000 == 1) { J j; j.str("kind", "odt").str("text", sp.buf); sample(j); }
    }
  }
  // every proper prefix of a valid string parses to an error
  {
    std::string full = "2019-05-20T12:34:56-07:30";
    for (size_t n = 0; n < full.size(); n++) {
      std::string p = full.substr(0, n);
      CNT.add("c15.short_strings");
      if (!OffsetDateTime::forDateString(p.c_str()).isError()) { J j; j.str("text", p); witness("c15:odt-short-not-error", "too-short OffsetDateTime string did not parse to error", j); }
      if (!ZonedDateTime::forDateString(p.c_str()).isError()) { J j; j.str("text", p); witness("c15:zdt-short-not-error", "too-short ZonedDateTime string did not parse to error", j); }
      if (n < 19 && !LocalDateTime::forDateString(p.c_str()).isError()) { J j; j.str("text", p); witness("c15:ldt-short-not-error", "too-short LocalDateTime string did not parse to error", j); }
      if (n < 10 && !LocalDate::forDateString(p.c_str()).isError()) { J j; j.str("text", p); witness("c15:ld-short-not-error", "too-short LocalDate string did not parse to error", j); }
      // the flash-string (F()) overloads go through their own copy-and-check code
      const __FlashStringHelper* fp = reinterpret_cast<const __FlashStringHelper*>(p.c_str());
      CNT.add("c15.short_flash_strings");
      if (!OffsetDateTime::forDateString(fp).isError()) { J j; j.str("text", p); witness("c15:odt-short-flash-not-error", "too-short OffsetDateTime F() string did not parse to error", j); }
      if (!ZonedDateTime::forDateString(fp).isError()) { J j; j.str("text", p); witness("c15:zdt-short-flash-not-error", "too-short ZonedDateTime F() string did not parse to error", j); }
      if (n < 19 && !LocalDateTime::forDateString(fp).isError()) { J j; j.str("text", p); witness("c15:ldt-short-flash-not-error", "too-short LocalDateTime F() string did not parse to error", j); }
    }
    // full-length strings through the F() overloads give the same values as through the const char* ones; over-long ones are errors
    {
      const char* f19 = "2019-05-20T12:34:56"; const char* f25 = "2019-05-20T12:34:56-07:30";
      if (LocalDateTime::forDateString(reinterpret_cast<const __FlashStringHelper*>(f19)) != LocalDateTime::forDateString(f19) || LocalDateTime::forDateString(f19).isError()) { J j; witness("c15:ldt-flash-differs", "LocalDateTime F() overload differs from the const char* overload", j); }
      if (OffsetDateTime::forDateString(reinterpret_cast<const __FlashStringHelper*>(f25)) != OffsetDateTime::forDateString(f25) || OffsetDateTime::forDateString(f25).isError()) { J j; witness("c15:odt-flash-differs", "OffsetDateTime F() overload differs from the const char* overload", j); }
      if (!LocalDateTime::forDateString(reinterpret_cast<const __FlashStringHelper*>("2019-05-20T12:34:56-07:30[America/Los_Angeles]x")).isError()) CNT.add("c15.info_ldt_flash_accepts_overlong");
    }
    std::string t = "12:34:56";
    for (size_t n = 0; n < t.size(); n++) { CNT.add("c15.short_strings"); if (!LocalTime::forTimeString(t.substr(0, n).c_str()).isError()) { J j; j.str("text", t.substr(0, n)); witness("c15:lt-short-not-error", "too-short LocalTime string did not parse to error", j); } }
    std::string o = "-07:30";
    for (size_t n = 0; n < o.size(); n++) { CNT.add("c15.short_strings"); if (!TimeOffset::forOffsetString(o.substr(0, n).c_str()).isError()) { J j; j.str("text", o.substr(0, n)); witness("c15:offset-short-not-error", "too-short TimeOffset string did not parse to error", j); } }
    if (!TimeOffset::forOffsetString("-07:300").isError()) { J j; witness("c15:offset-long-not-error", "over-long TimeOffset string did not parse to error", j); }
    if (!TimeOffset::forOffsetString("x07:30").isError()) { J j; witness("c15:offset-nosign-not-error", "TimeOffset string without sign did not parse to error", j); }
  }
  // error values print their placeholders
  {
    struct { std::string got; const char* want; const char* what; } cases[6];
    StrPrint p0; LocalDate::forError().printTo(p0); cases[0] = {p0.buf, "<Invalid LocalDate>", "LocalDate"};
    StrPrint p1; LocalTime::forError().printTo(p1); cases[1] = {p1.buf, "<Invalid LocalTime>", "LocalTime"};
    StrPrint p2; LocalDateTime::forError().printTo(p2); cases[2] = {p2.buf, "<Invalid LocalDateTime>", "LocalDateTime"};
    StrPrint p3; OffsetDateTime::forError().printTo(p3); cases[3] = {p3.buf, "<Invalid OffsetDateTime>", "OffsetDateTime"};
    StrPrint p4; ZonedDateTime::forError().printTo(p4); cases[4] = {p4.buf, "<Invalid ZonedDateTime>", "ZonedDateTime"};
    StrPrint p5; TimeZone::forError().printTo(p5); cases[5] = {p5.buf, "<Error>", "TimeZone"};
    for (auto& c : cases) { CNT.add("c15.placeholders"); if (c.got != c.want) { J j; j.str("type", c.what).str("got", c.got).str("want", c.want); witness("c15:placeholder", "error value does not print its documented placeholder", j); } }
  }
  // ... whichever component makes them an error: one component at a time takes every byte value; a value that is an error
  // prints exactly its own type's placeholder, a value that is not prints no placeholder at all
  {
    TimeZone utc = TimeZone::forUtc();
    for (int comp = 0; comp < 5; comp++) for (int v = 0; v < 256; v++) {
      uint8_t mo = 3, d = 10, h = 2, mi = 30, se = 15;
      (comp == 0 ? mo : comp == 1 ? d : comp == 2 ? h : comp == 3 ? mi : se) = (uint8_t) v;
      LocalDate ld = LocalDate::forComponents(2019, mo, d);
      LocalTime lt = LocalTime::forComponents(h, mi, se);
      LocalDateTime ldt = LocalDateTime::forComponents(2019, mo, d, h, mi, se);
      OffsetDateTime odt = OffsetDateTime::forComponents(2019, mo, d, h, mi, se, TimeOffset::forHours(-8));
      ZonedDateTime zdt = ZonedDateTime::forComponents(2019, mo, d, h, mi, se, utc);
      struct { bool err; std::string got; const char* want; const char* what; } cs[5];
      StrPrint q0; ld.printTo(q0); cs[0] = {ld.isError(), q0.buf, "<Invalid LocalDate>", "LocalDate"};
      StrPrint q1; lt.printTo(q1); cs[1] = {lt.isError(), q1.buf, "<Invalid LocalTime>", "LocalTime"};
      StrPrint q2; ldt.printTo(q2); cs[2] = {ldt.isError(), q2.buf, "<Invalid LocalDateTime>", "LocalDateTime"};
      StrPrint q3; odt.printTo(q3); cs[3] = {odt.isError(), q3.buf, "<Invalid OffsetDateTime>", "OffsetDateTime"};
      StrPrint q4; zdt.printTo(q4); cs[4] = {zdt.isError(), q4.buf, "<Invalid ZonedDateTime>", "ZonedDateTime"};
      for (auto& c : cs) {
        CNT.add("c15.placeholders_by_component");
        bool ok = c.err ? (c.got == c.want) : (c.got.find("<Invalid") == std::string::npos);
        if (!ok) { J j; j.str("type", c.what).num("component", comp).num("value", v).num("isError", c.err).str("got", c.got).str("want_if_error", c.want); witness("c15:placeholder", "error value does not print its documented placeholder", j); }
      }
    }
    {
      OffsetDateTime o24 = OffsetDateTime::forComponents(2019, 3, 10, 24, 0, 0, TimeOffset::forMinutes(-210));
      StrPrint q24; o24.printTo(q24); CNT.add("c15.placeholders_by_component");
      OffsetDateTime b24 = OffsetDateTime::forDateString(q24.c_str());
      if (o24.isError() || q24.buf != "2019-03-10T24:00:00-03:30" || b24 != o24) { J j; j.str("got", q24.buf).num("isError", o24.isError()); witness("c15:odt-print", "an offset date-time at 24:00:00 (a valid time of day) does not print as written and parse back", j); }
      ZonedDateTime z24 = ZonedDateTime::forComponents(2019, 3, 10, 24, 0, 0, TimeZone::forTimeOffset(TimeOffset::forHours(1)));
      StrPrint qz24; z24.printTo(qz24);
      if (z24.isError() || qz24.buf != "2019-03-10T24:00:00+01:00[+01:00+00:00]") { J j; j.str("got", qz24.buf).num("isError", z24.isError()); witness("c15:zdt-manual-print", "a zoned date-time at 24:00:00 in a manual zone does not print as written", j); }
    }
    OffsetDateTime eo = OffsetDateTime::forComponents(2019, 3, 10, 2, 30, 15, TimeOffset::forError());
    StrPrint qe; eo.printTo(qe); CNT.add("c15.placeholders_by_component");
    // an error in ANY component makes the value an error value (documented on isError()): the offset counts as one
    if (!eo.isError() || qe.buf != "<Invalid OffsetDateTime>") { J j; j.str("type", "OffsetDateTime with the error offset").num("isError", eo.isError()).str("got", qe.buf); witness("c15:placeholder", "error value does not print its documented placeholder", j); }
    for (const char* t : {"2019-01-01T00:00:00 08:00", "2019-01-01T00:00:00x08:00", "2019-01-01T00:00:00\t08:00"}) {     // full length, but no sign where the offset starts
      OffsetDateTime po = OffsetDateTime::forDateString(t); StrPrint qp; po.printTo(qp); CNT.add("c15.placeholders_by_component");
      if (!po.isError() || qp.buf != "<Invalid OffsetDateTime>") { J j; j.str("type", "OffsetDateTime parsed from a string without offset sign").str("text", t).str("got", qp.buf); witness("c15:placeholder", "error value does not print its documented placeholder", j); }
    }
    ZonedDateTime ez = ZonedDateTime::forComponents(2019, 3, 10, 2, 30, 15, TimeZone::forError());
    StrPrint qz; ez.printTo(qz); CNT.add("c15.placeholders_by_component");
    if (!ez.isError() || qz.buf != "<Invalid ZonedDateTime>") { J j; j.str("type", "ZonedDateTime in the error zone").num("isError", ez.isError()).str("got", qz.buf); witness("c15:placeholder", "error value does not print its documented placeholder", j); }
    ZonedDateTime ez2 = ZonedDateTime::forEpochSeconds(600000000, TimeZone::forError());
    StrPrint qz2; ez2.printTo(qz2); CNT.add("c15.placeholders_by_component");
    if (!ez2.isError() || qz2.buf != "<Invalid ZonedDateTime>") { J j; j.str("type", "ZonedDateTime of a valid instant in the error zone").num("isError", ez2.isError()).str("got", qz2.buf); witness("c15:placeholder", "error value does not print its documented placeholder", j); }
  }
  // TimePeriod print
  for (int32_t s : {0, 1, 59, 60, 3599, 3600, 86399, 921599, -1, -3661, -921599}) {
    TimePeriod p(s); StrPrint sp; p.printTo(sp);
    int a = s < 0 ? -s : s; char b[32]; snprintf(b, sizeof b, "%s%02d:%02d:%02d", s < 0 ? "-" : "", a / 3600, a / 60 % 60, a % 60);
    CNT.add("c15.period");
    if (sp.buf != b) { J j; j.str("want", b).str("got", sp.buf); witness("c15:period-print", "TimePeriod printed form wrong", j); }
  }
}

// ZonedDateTime print/parse for every zone name of both registries
static void c15_zones() {
  static BasicZoneProcessor bp; static ExtendedZoneProcessor xp;
  ZonedDateTime prevZ; std::string prevName, prevText; bool havePrev = false;
  for (int kind = 0; kind < 2; kind++) {
    uint16_t n = kind ? zonedbx::kZoneRegistrySize : zonedb::kZoneRegistrySize;
    for (uint16_t i = 0; i < n; i++) {
      TimeZone tz; std::string name;
      if (kind) { const extended::ZoneInfo* zi = zonedbx::kZoneRegistry[i]; tz = TimeZone::forZoneInfo(zi, &xp); name = zi->name; }
      else { const basic::ZoneInfo* zi = zonedb::kZoneRegistry[i]; tz = TimeZone::forZoneInfo(zi, &bp); name = zi->name; }
      for (acetime_t t : {(acetime_t) 0, (acetime_t) 330000000, (acetime_t) 646000000, (acetime_t) 1000000000, (acetime_t) 1500000000}) {
        ZonedDateTime z = ZonedDateTime::forEpochSeconds(t, tz);
        StrPrint sp; z.printTo(sp);
        TimeOffset off = z.timeOffset();
        Civil c = civil_from_seconds((int64_t) t + off.toSeconds());
        std::string want = fmt_ldt(c.y, c.mo, c.d, c.h, c.mi, c.s) + fmt_off(off.toMinutes()) + "[" + name + "]";
        CNT.add("c15.zdt_zone");
        if (sp.buf != want) { J j; j.str("zone", name).num("t", t).str("want", want).str("got", sp.buf); witness("c15:zdt-print", "ZonedDateTime printed form is not offset form + [zone name]", j); continue; }
        // parse back: same instant and offset
        ZonedDateTime back = ZonedDateTime::forDateString(sp.c_str());
        if (back.isError() || back.toEpochSeconds() != t || back.timeOffset() != off) { J j; j.str("text", sp.buf).num("t", t).num("got_t", back.toEpochSeconds()); witness("c15:zdt-zone-parse", "parsing a printed ZonedDateTime does not give the same instant and offset", j); }
        if (i % 97 == 0 && t == 0) { J j; j.str("kind", "zdt").str("text", sp.buf); sample(j, 12); }
      }
      // short name
      StrPrint ps; tz.printShortTo(ps);
      size_t slash = name.rfind('/');
      std::string wantShort = slash == std::string::npos ? name : name.substr(slash + 1);
      if (ps.buf != wantShort) { J j; j.str("zone", name).str("got", ps.buf); witness("c15:tz-shortname", "printShortTo is not the last path component", j); }
      // a zoned date-time of the PREVIOUS zone, printed now that the shared processor has worked for this zone,
      // must still carry the previous zone's name (the value, not the processor, decides what is printed)
      if (havePrev) {
        StrPrint pp; prevZ.printTo(pp);
        CNT.add("c15.zdt_zone_after_processor_rebound");
        if (pp.buf != prevText) { J j; j.str("zone", prevName).str("processor_last_used_for", name).str("want", prevText).str("got", pp.buf); witness("c15:zdt-print-names-other-zone", "a ZonedDateTime printed after its processor served another zone does not carry its own zone name", j); }
        StrPrint pq; prevZ.timeZone().printShortTo(pq);
        size_t sl = prevName.rfind('/');
        if (pq.buf != (sl == std::string::npos ? prevName : prevName.substr(sl + 1))) { J j; j.str("zone", prevName).str("got", pq.buf); witness("c15:zdt-print-names-other-zone", "printShortTo after the processor served another zone names the other zone", j); }
      }
      {
        // recompute this zone last so that the processor is bound to it when the next zone starts
        prevZ = ZonedDateTime::forEpochSeconds(646000000, tz); prevName = name; havePrev = true;
        StrPrint pt; prevZ.printTo(pt); prevText = pt.buf;
      }
    }
    havePrev = false;
  }
  // manual zones
  for (int std = -960; std <= 960; std += 15) for (int dst : {0, 60, 30, -60}) {
    TimeZone tz = TimeZone::forTimeOffset(TimeOffset::forMinutes(std), TimeOffset::forMinutes(dst));
    ZonedDateTime z = ZonedDateTime::forEpochSeconds(500000000, tz);
    StrPrint sp; z.printTo(sp);
    Civil c = civil_from_seconds(500000000LL + 60 * (std + dst));
    std::string tzs = (std == 0 && dst == 0) ? std::string("UTC") : fmt_off(std) + fmt_off(dst);
    std::string want = fmt_ldt(c.y, c.mo, c.d, c.h, c.mi, c.s) + fmt_off(std + dst) + "[" + tzs + "]";
    CNT.add("c15.zdt_manual");
    if (sp.buf != want) { J j; j.num("std", std).num("dst", dst).str("want", want).str("got", sp.buf); witness("c15:zdt-manual-print", "manual-zone ZonedDateTime printed form wrong", j); }
    ZonedDateTime back = ZonedDateTime::forDateString(sp.c_str());
    if (back.toEpochSeconds() != 500000000 || back.timeOffset().toMinutes() != std + dst) { J j; j.str("text", sp.buf); witness("c15:zdt-manual-parse", "manual-zone ZonedDateTime parse wrong", j); }
  }
}

// --------------------------------------------------------------------------- C18 (C++ side dump)
// Reads (year, month, dow, dom) cases from stdin as binary int16/uint8/uint8/int8,
// writes (month, day) per case as two bytes to the file given by --out.
static void c18_dump(const std::string& in, const std::string& out) {
  FILE* fi = fopen(in.c_str(), "rb"); FILE* fo = fopen(out.c_str(), "wb");
  if (!fi || !fo) { fprintf(stderr, "c18: cannot open files\n"); exit(3); }
  struct __attribute__((packed)) Case { int16_t year; uint8_t month; uint8_t dow; int8_t dom; };
  Case c;
  while (fread(&c, sizeof c, 1, fi) == 1) {
    basic::MonthDay md = BasicZoneProcessor::calcStartDayOfMonth(c.year, c.month, c.dow, c.dom);
    uint8_t o[2] = {md.month, md.day};
    fwrite(o, 1, 2, fo);
    CNT.add("c18.cpp_cases");
  }
  fclose(fi); fclose(fo);
}

// --------------------------------------------------------------------------- C18 (the day the processors APPLY)
// The resolver's (month, day) only matters through the transition the processors schedule with it. For every case
// (year, month, dow, dom, expected month, expected day) read from --in, a one-era zone at UTC+0 is built in memory whose
// policy switches to +1:00 "on <expression> in <month> at 12:00" and back half a year later; the basic and the extended
// processor must both report standard time one second before 12:00 of the calendar's day and +1:00 at 12:00.
template <typename ZR, typename ZP, typename ZE, typename ZI, typename ZC, typename PROC>
static void c18_apply_one(const char* which, int16_t year, uint8_t month, uint8_t dow, int8_t dom, uint8_t em, uint8_t ed, int8_t ruleDelta, int8_t eraDelta) {
  uint8_t back = (uint8_t) (((month - 1 + 6) % 12) + 1);
  ZR rules[2] = {
    {-126, 126, month, dow, dom, 48, ZC::kSuffixW, (int8_t) (ruleDelta + 4), 'D'},
    {-126, 126, back, 0, 15, 48, ZC::kSuffixW, ruleDelta, 'S'},
  };
  ZP policy = {rules, nullptr, 2, 0};
  ZE eras[1] = {{&policy, "T%T", 0, eraDelta, 127, 1, 1, 0, ZC::kSuffixW}};
  static const ZC ctx = {2000, 2050, "verif"};
  ZI info = {"Test/C18", 0x1234, &ctx, 4, 1, eras};
  PROC proc;
  TimeZone tz = TimeZone::forZoneInfo(&info, &proc);
  acetime_t at = LocalDateTime::forComponents(year, em, ed, 12, 0, 0).toEpochSeconds();
  int before = tz.getDeltaOffset(at - 1).toMinutes(), after = tz.getDeltaOffset(at).toMinutes();
  int dayBefore = tz.getDeltaOffset(at - 86400).toMinutes(), dayAfter = tz.getDeltaOffset(at + 86400).toMinutes();
  CNT.add("c18.applied_cases");
  if (before != 0 || after != 60 || dayBefore != 0 || dayAfter != 60) {
    J j; j.str("processor", which).num("year", year).num("month", month).num("dow", dow).num("dom", dom).num("calendar_month", em).num("calendar_day", ed)
      .num("dst_1s_before_noon", before).num("dst_at_noon", after).num("dst_a_day_before", dayBefore).num("dst_a_day_after", dayAfter);
    witness("c18:processor-applies-rule-on-another-day", "a processor does not switch at 12:00 of the calendar's (month, day) for a rule ON expression", j);
  }
}

static void c18_apply(const std::string& in, int shard, int n) {
  FILE* fi = fopen(in.c_str(), "rb");
  if (!fi) { fprintf(stderr, "c18apply: cannot open file\n"); exit(3); }
  struct __attribute__((packed)) Case { int16_t year; uint8_t month; uint8_t dow; int8_t dom; uint8_t em; uint8_t ed; };
  Case c;
  long i = 0;
  while (fread(&c, sizeof c, 1, fi) == 1) {
    if (i++ % n != shard) continue;
    c18_apply_one<basic::ZoneRule, basic::ZonePolicy, basic::ZoneEra, basic::ZoneInfo, basic::ZoneContext, BasicZoneProcessor>(
        "basic", c.year, c.month, c.dow, c.dom, c.em, c.ed, 0, 0);
    c18_apply_one<extended::ZoneRule, extended::ZonePolicy, extended::ZoneEra, extended::ZoneInfo, extended::ZoneContext, ExtendedZoneProcessor>(
        "extended", c.year, c.month, c.dow, c.dom, c.em, c.ed, 4, 4);
  }
  fclose(fi);
}

int main(int argc, char** argv) {
  Args a(argc, argv);
  std::string mode = a.get("mode");
  int shard = a.shard(), n = a.nshards();
  if (mode == "c06days") c06_days();
  else if (mode == "c06bytes") c06_bytes(shard, n);
  else if (mode == "c06secs") c06_secs(shard, n, a.num("stride", 997), a.has("full"), a.has("edge"));
  else if (mode == "c17") c17();
  else if (mode == "c15") { if (shard == 0) c15(a.num("seed", 0)); else c15_zones(); }
  else if (mode == "c18") c18_dump(a.get("in"), a.get("out"));
  else if (mode == "c18apply") c18_apply(a.get("in"), shard, n);
  else { fprintf(stderr, "unknown mode\n"); return 3; }
  CNT.flush();
  return 0;
}
