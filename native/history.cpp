// history driver: call histories on shared processors / managers with a fresh-instance shadow (C08),
// hostile arguments, sequences and buffer bounds under sanitizers (C09).
#include "vcommon.h"
#include <AceTime.h>
#include <signal.h>
#include <sys/time.h>
#include <unistd.h>
#include <set>
#include <algorithm>

using namespace ace_time;
using namespace verif;

static std::string PROP = "c08";

// --------------------------------------------------------------------------- crash / hang attribution
static char g_step[512] = "(none)";
static volatile long long g_stepNo = 0;
static long long g_lastTickStep = -1; static int g_stuckTicks = 0;

static void emit_fatal(const char* key, const char* what) {
  char buf[1024];
  int n = snprintf(buf, sizeof buf, "\n{\"t\":\"w\",\"v\":{\"key\":\"%s\",\"what\":\"%s\",\"open_call\":\"%s\"}}\n", key, what, g_step);
  if (n > 0) { ssize_t r = write(1, buf, (size_t) n); (void) r; }
}
static void on_fatal(int sig) {
  std::string k = PROP + (sig == SIGSEGV ? ":crash-segv" : sig == SIGFPE ? ":crash-fpe" : ":crash-abort");
  emit_fatal(k.c_str(), "process died inside a library call (journal shows the open call)");
  _exit(0);
}
static void on_tick(int) {
  if (g_stepNo == g_lastTickStep) {
    if (++g_stuckTicks >= 2) { std::string k = PROP + ":hang"; emit_fatal(k.c_str(), "a single call consumed more than 4 s of CPU (non-termination)"); _exit(0); }
  } else { g_stuckTicks = 0; g_lastTickStep = g_stepNo; }
}
static void arm() {
  signal(SIGSEGV, on_fatal); signal(SIGABRT, on_fatal); signal(SIGFPE, on_fatal); signal(SIGBUS, on_fatal);
  struct sigaction sa; memset(&sa, 0, sizeof sa); sa.sa_handler = on_tick; sigaction(SIGVTALRM, &sa, nullptr);
  struct itimerval it; it.it_interval.tv_sec = 2; it.it_interval.tv_usec = 0; it.it_value = it.it_interval; setitimer(ITIMER_VIRTUAL, &it, nullptr);
}
#define STEP(...) do { snprintf(g_step, sizeof g_step, __VA_ARGS__); g_stepNo++; } while (0)

// --------------------------------------------------------------------------- operations and answers
enum Op { OP_OFFSET = 0, OP_DELTA, OP_ABBREV, OP_LOCAL, OP_PRINT, OP_SHORT, OP_ZDT, NUM_OPS };
static const char* kOpNames[] = {"getUtcOffset", "getDeltaOffset", "getAbbrev", "getOffsetDateTime", "printTo", "printShortTo", "ZonedDateTime::forEpochSeconds"};

static std::string answer(const TimeZone& tz, int op, acetime_t t) {
  char b[160];
  switch (op) {
    case OP_OFFSET: { TimeOffset o = tz.getUtcOffset(t); if (o.isError()) return "ERR"; snprintf(b, sizeof b, "%d", o.toMinutes()); return b; }
    case OP_DELTA: { TimeOffset o = tz.getDeltaOffset(t); if (o.isError()) return "ERR"; snprintf(b, sizeof b, "%d", o.toMinutes()); return b; }
    case OP_ABBREV: { const char* a = tz.getAbbrev(t); return a ? std::string("'") + a + "'" : "<null>"; }   // copied at once
    case OP_LOCAL: {
      LocalDateTime ldt = LocalDateTime::forEpochSeconds(t);   // the instant's UTC fields taken as a wall time
      OffsetDateTime odt = tz.getOffsetDateTime(ldt);
      if (odt.isError()) return "ERR";
      snprintf(b, sizeof b, "%d@%d", odt.toEpochSeconds(), odt.timeOffset().toMinutes()); return b;
    }
    case OP_PRINT: { StrPrint p; tz.printTo(p); return p.buf; }
    case OP_SHORT: { StrPrint p; tz.printShortTo(p); return p.buf; }
    case OP_ZDT: {
      ZonedDateTime z = ZonedDateTime::forEpochSeconds(t, tz);
      if (z.isError()) return "ERR";
      snprintf(b, sizeof b, "%04d-%02d-%02dT%02d:%02d:%02d%+d", z.year(), z.month(), z.day(), z.hour(), z.minute(), z.second(), z.timeOffset().toMinutes()); return b;
    }
  }
  return "?";
}

static std::vector<acetime_t> g_args; static std::vector<std::string> g_argNames;
// The supported years come from the zone data itself (ZoneContext): startYear-1 .. untilYear inclusive.
static int g_rangeLo = 1999, g_rangeHi = 2050;
static void set_range_from_db() {
  g_rangeLo = zonedbx::kZoneContext.startYear - 1; g_rangeHi = zonedbx::kZoneContext.untilYear;
  if (zonedb::kZoneContext.startYear - 1 > g_rangeLo) g_rangeLo = zonedb::kZoneContext.startYear - 1;   // judge only where both agree
  if (zonedb::kZoneContext.untilYear < g_rangeHi) g_rangeHi = zonedb::kZoneContext.untilYear;
}
static int g_outLo = 1998, g_outHi = 2051;   // definitely outside both databases
static bool arg_in_range(size_t ai) {
  if (g_args[ai] == LocalDate::kInvalidEpochSeconds) return false;
  Civil c = civil_from_seconds(g_args[ai]); return c.y >= g_rangeLo && c.y <= g_rangeHi;
}
static bool arg_out_of_range(size_t ai) {
  if (g_args[ai] == LocalDate::kInvalidEpochSeconds) return true;
  Civil c = civil_from_seconds(g_args[ai]); return c.y <= g_outLo || c.y >= g_outHi;
}

// argument pool: mid-year of every year 1998..2051, a few Jan-1 instants, the sentinel
static void build_args() {
  for (int y = g_outLo; y <= g_outHi && y <= 2066; y++) { g_args.push_back((acetime_t) (days_from_civil(y, 7, 2) * 86400 + 43200)); char b[32]; snprintf(b, sizeof b, "%d-07-02", y); g_argNames.push_back(b); }
  for (int y : {2000, 2025, 2050}) { g_args.push_back((acetime_t) (days_from_civil(y, 1, 1) * 86400)); char b[32]; snprintf(b, sizeof b, "%d-01-01T00:00", y); g_argNames.push_back(b); }
  g_args.push_back((acetime_t) (days_from_civil(2009, 12, 31) * 86400 + 86399)); g_argNames.push_back("2009-12-31T23:59:59");
  // instants next to the edges of the processors' year caches (the extended one spans Dec of year-1 .. Jan of year+1 in LOCAL
  // time while it is keyed by the UTC year): first / last hours of Dec 1, Feb 1, Nov 30, Jan 31 next to a mid-year argument of
  // the adjacent year, and the months just outside the supported range
  {
    struct X { int y, m, d, h; };
    static const X xs[] = {{2018, 12, 1, 3}, {2018, 11, 30, 21}, {2019, 12, 1, 11}, {2020, 1, 31, 21}, {2020, 2, 1, 3}, {2051, 1, 15, 12}, {1998, 12, 15, 12}};
    for (const X& x : xs) {
      g_args.push_back((acetime_t) (days_from_civil(x.y, x.m, x.d) * 86400 + x.h * 3600));
      char b[40]; snprintf(b, sizeof b, "%04d-%02d-%02dT%02d:00", x.y, x.m, x.d, x.h); g_argNames.push_back(b);
    }
  }
  { acetime_t inv = LocalDate::kInvalidEpochSeconds; g_args.push_back(inv); } g_argNames.push_back("SENTINEL");
}
// --------------------------------------------------------------------------- zone access by (kind, index)
struct ZoneRef { int kind; uint16_t idx; };   // kind 0 basic, 1 extended
static const char* zoneName(ZoneRef z) { return z.kind ? zonedbx::kZoneRegistry[z.idx]->name : zonedb::kZoneRegistry[z.idx]->name; }

// Fresh processor + TimeZone, asked only this one question.
static std::string shadow_answer(ZoneRef z, int op, acetime_t t) {
  if (z.kind) { ExtendedZoneProcessor* p = new ExtendedZoneProcessor(); TimeZone tz = TimeZone::forZoneInfo(zonedbx::kZoneRegistry[z.idx], p); std::string a = answer(tz, op, t); delete p; return a; }
  BasicZoneProcessor* p = new BasicZoneProcessor(); TimeZone tz = TimeZone::forZoneInfo(zonedb::kZoneRegistry[z.idx], p); std::string a = answer(tz, op, t); delete p; return a;
}

static void report(const std::string& key, const std::string& what, ZoneRef z, const std::string& history, const std::string& got, const std::string& want) {
  J j; j.str("zone", zoneName(z)).str("kind", z.kind ? "extended" : "basic").str("history", history).str("got", got).str("fresh_instance", want);
  witness(key, what, j);
}

// Error expectation of C09 for an out-of-range argument
static bool is_error_answer(int op, const std::string& a) { return op == OP_ABBREV ? a == "''" : a == "ERR"; }

// --------------------------------------------------------------------------- item 1: ordered pairs of cache states
static void pairs_zone(ZoneRef z, bool checkShadow) {
  const int ops[4] = {OP_OFFSET, OP_DELTA, OP_ABBREV, OP_LOCAL};
  size_t na = g_args.size();
  // shadow table
  std::vector<std::string> sh(4 * na);
  for (int oi = 0; oi < 4; oi++) for (size_t ai = 0; ai < na; ai++) {
    STEP("shadow zone=%s %s(%s)", zoneName(z), kOpNames[ops[oi]], g_argNames[ai].c_str());
    sh[oi * na + ai] = shadow_answer(z, ops[oi], g_args[ai]);
    if (arg_out_of_range(ai) && !is_error_answer(ops[oi], sh[oi * na + ai])) {
      report("c09:out-of-range-not-error", "a fresh time zone answered an out-of-range argument with a non-error value", z, std::string(kOpNames[ops[oi]]) + "(" + g_argNames[ai] + ")", sh[oi * na + ai], "error value");
    }
    if (arg_in_range(ai) && is_error_answer(ops[oi], sh[oi * na + ai])) {
      report(PROP + ":in-range-error", "a fresh time zone answered an in-range argument with an error value", z, std::string(kOpNames[ops[oi]]) + "(" + g_argNames[ai] + ")", sh[oi * na + ai], "value");
    }
  }
  ExtendedZoneProcessor* xp = nullptr; BasicZoneProcessor* bp = nullptr;
  for (size_t a = 0; a < na; a++) for (size_t b = 0; b < na; b++) for (int o1 = 0; o1 < 4; o1++) for (int o2 = 0; o2 < 4; o2++) {
    // fresh object under test per history
    TimeZone tz;
    if (z.kind) { delete xp; xp = new ExtendedZoneProcessor(); tz = TimeZone::forZoneInfo(zonedbx::kZoneRegistry[z.idx], xp); }
    else { delete bp; bp = new BasicZoneProcessor(); tz = TimeZone::forZoneInfo(zonedb::kZoneRegistry[z.idx], bp); }
    STEP("zone=%s %s(%s)", zoneName(z), kOpNames[ops[o1]], g_argNames[a].c_str());
    std::string r1 = answer(tz, ops[o1], g_args[a]);
    STEP("zone=%s %s(%s); %s(%s)", zoneName(z), kOpNames[ops[o1]], g_argNames[a].c_str(), kOpNames[ops[o2]], g_argNames[b].c_str());
    std::string r2 = answer(tz, ops[o2], g_args[b]);
    STEP("zone=%s %s(%s); %s(%s); %s(%s) [repeat]", zoneName(z), kOpNames[ops[o1]], g_argNames[a].c_str(), kOpNames[ops[o2]], g_argNames[b].c_str(), kOpNames[ops[o2]], g_argNames[b].c_str());
    std::string r3 = answer(tz, ops[o2], g_args[b]);
    // ... and back to the first question (a cache emptied or re-keyed by b must not poison a)
    STEP("zone=%s %s(%s); %s(%s) x2; %s(%s) [back]", zoneName(z), kOpNames[ops[o1]], g_argNames[a].c_str(), kOpNames[ops[o2]], g_argNames[b].c_str(), kOpNames[ops[o1]], g_argNames[a].c_str());
    std::string r4 = answer(tz, ops[o1], g_args[a]);
    CNT.add("hist.pair_histories");
    const std::string& w1 = sh[o1 * na + a]; const std::string& w2 = sh[o2 * na + b];
    if (checkShadow && (r1 != w1 || r2 != w2 || r3 != w2 || r4 != w1)) {
      std::string h = std::string(kOpNames[ops[o1]]) + "(" + g_argNames[a] + "); " + kOpNames[ops[o2]] + "(" + g_argNames[b] + "); repeat; " + kOpNames[ops[o1]] + "(" + g_argNames[a] + ")";
      report(PROP + ":answer-depends-on-history", "answer differs from a freshly constructed time zone asked only this question", z, h, r1 + " | " + r2 + " | " + r3 + " | " + r4, w1 + " | " + w2 + " | " + w2 + " | " + w1);
    }
  }
  delete xp; delete bp;
}

// --------------------------------------------------------------------------- item 2: TimeZone values sharing one processor
static void shared_random(Rng& rng, long long steps, bool checkShadow) {
  std::map<std::string, std::string> cache;
  long long done = 0;
  while (done < steps) {
    int kind = rng.below(2);
    int k = 2 + rng.below(3);
    ExtendedZoneProcessor* xp = new ExtendedZoneProcessor(); BasicZoneProcessor* bp = new BasicZoneProcessor();
    std::vector<TimeZone> tzs; std::vector<ZoneRef> refs;
    uint16_t n = kind ? zonedbx::kZoneRegistrySize : zonedb::kZoneRegistrySize;
    for (int i = 0; i < k; i++) {
      uint16_t idx = (uint16_t) rng.below(n);
      refs.push_back({kind, idx});
      tzs.push_back(kind ? TimeZone::forZoneInfo(zonedbx::kZoneRegistry[idx], xp) : TimeZone::forZoneInfo(zonedb::kZoneRegistry[idx], bp));
    }
    int len = 4 + rng.below(40);
    std::string hist;
    for (int s = 0; s < len; s++, done++) {
      int w = rng.below(k);
      int op = (s < k && rng.below(2)) ? (OP_PRINT + rng.below(2)) : rng.below(NUM_OPS);   // printing as a first operation is likely
      size_t ai = rng.below((uint32_t) g_args.size());
      char sb[200]; snprintf(sb, sizeof sb, "tz%d[%s].%s(%s); ", w, zoneName(refs[w]), kOpNames[op], g_argNames[ai].c_str());
      if (hist.size() < 30000) hist += sb;
      STEP("shared-processor history: %s", hist.size() < 400 ? hist.c_str() : hist.c_str() + hist.size() - 400);
      std::string got = answer(tzs[w], op, g_args[ai]);
      CNT.add("hist.shared_steps");
      char ck[96]; snprintf(ck, sizeof ck, "%d/%u/%d/%zu", kind, refs[w].idx, op, ai);
      auto it = cache.find(ck);
      if (it == cache.end()) { STEP("shadow zone=%s %s(%s)", zoneName(refs[w]), kOpNames[op], g_argNames[ai].c_str()); it = cache.insert({ck, shadow_answer(refs[w], op, g_args[ai])}).first; }
      if (checkShadow && got != it->second) {
        std::string key = (op == OP_PRINT || op == OP_SHORT) ? ":shared-processor-prints-other-zone" : (op == OP_ABBREV ? ":shared-processor-abbrev-of-other-zone" : ":shared-processor-answer-differs");
        report(PROP + key, "a time zone sharing its processor with other zones answers differently from a fresh one", refs[w], hist, got, it->second);
        break;
      }
      if (arg_out_of_range(ai) && op != OP_PRINT && op != OP_SHORT && !is_error_answer(op == OP_ZDT ? OP_OFFSET : op, got)) {
        report("c09:out-of-range-not-error", "out-of-range argument answered with a non-error value after a history", refs[w], hist, got, "error value");
      }
    }
    if (done < 200) { J j; j.str("kind", "shared-processor").str("history", hist.substr(0, 400)); sample(j, 3); }
    delete xp; delete bp;
  }
}

// --------------------------------------------------------------------------- item 3: managers with more zones than cache slots
template <typename ZI, typename MGR>
static void manager_run(const ZI* const* reg, uint16_t n, int kind, int size, Rng& rng, long long steps, bool checkShadow, std::map<std::string, std::string>& cache) {
  long long done = 0;
  while (done < steps) {
    MGR* mgr = new MGR(n, reg);
    int nz = 2 * size + 1;
    std::vector<TimeZone> tzs; std::vector<ZoneRef> refs;
    for (int i = 0; i < nz; i++) {
      uint16_t idx = (uint16_t) rng.below(n);
      TimeZone tz;
      switch (rng.below(4)) {
        case 0: tz = mgr->createForZoneName(reg[idx]->name); break;
        case 1: tz = mgr->createForZoneId(reg[idx]->zoneId); break;
        case 2: tz = mgr->createForZoneIndex(idx); break;
        default: tz = mgr->createForZoneInfo(reg[idx]); break;
      }
      tzs.push_back(tz); refs.push_back({kind, idx});
    }
    int len = 6 + rng.below(60);
    std::string hist;
    for (int s = 0; s < len; s++, done++) {
      int w = rng.below(nz);
      int op = rng.below(NUM_OPS);
      size_t ai = rng.below((uint32_t) g_args.size());
      char sb[200]; snprintf(sb, sizeof sb, "tz%d[%s].%s(%s); ", w, zoneName(refs[w]), kOpNames[op], g_argNames[ai].c_str());
      if (hist.size() < 30000) hist += sb;
      STEP("manager<%d> history: %s", size, hist.size() < 400 ? hist.c_str() : hist.c_str() + hist.size() - 400);
      std::string got = answer(tzs[w], op, g_args[ai]);
      CNT.add("hist.manager_steps");
      char ck[96]; snprintf(ck, sizeof ck, "%d/%u/%d/%zu", kind, refs[w].idx, op, ai);
      auto it = cache.find(ck);
      if (it == cache.end()) { STEP("shadow zone=%s %s(%s)", zoneName(refs[w]), kOpNames[op], g_argNames[ai].c_str()); it = cache.insert({ck, shadow_answer(refs[w], op, g_args[ai])}).first; }
      if (checkShadow && got != it->second) {
        char kb[64]; snprintf(kb, sizeof kb, ":manager-answer-differs");
        report(PROP + kb, "a manager-created time zone competing for processor cache slots answers differently from a fresh one", refs[w], hist, got, it->second);
        break;
      }
    }
    if (done < 100) { J j; j.str("kind", "manager").num("cache_size", size).num("zones", nz).str("history", hist.substr(0, 300)); sample(j, 5); }
    delete mgr;
  }
}

static void managers(Rng& rng, long long steps, bool checkShadow) {
  std::map<std::string, std::string> cache;
  long long per = steps / 8;
  manager_run<basic::ZoneInfo, BasicZoneManager<1>>(zonedb::kZoneRegistry, zonedb::kZoneRegistrySize, 0, 1, rng, per, checkShadow, cache);
  manager_run<basic::ZoneInfo, BasicZoneManager<2>>(zonedb::kZoneRegistry, zonedb::kZoneRegistrySize, 0, 2, rng, per, checkShadow, cache);
  manager_run<basic::ZoneInfo, BasicZoneManager<3>>(zonedb::kZoneRegistry, zonedb::kZoneRegistrySize, 0, 3, rng, per, checkShadow, cache);
  manager_run<basic::ZoneInfo, BasicZoneManager<4>>(zonedb::kZoneRegistry, zonedb::kZoneRegistrySize, 0, 4, rng, per, checkShadow, cache);
  manager_run<extended::ZoneInfo, ExtendedZoneManager<1>>(zonedbx::kZoneRegistry, zonedbx::kZoneRegistrySize, 1, 1, rng, per, checkShadow, cache);
  manager_run<extended::ZoneInfo, ExtendedZoneManager<2>>(zonedbx::kZoneRegistry, zonedbx::kZoneRegistrySize, 1, 2, rng, per, checkShadow, cache);
  manager_run<extended::ZoneInfo, ExtendedZoneManager<3>>(zonedbx::kZoneRegistry, zonedbx::kZoneRegistrySize, 1, 3, rng, per, checkShadow, cache);
  manager_run<extended::ZoneInfo, ExtendedZoneManager<4>>(zonedbx::kZoneRegistry, zonedbx::kZoneRegistrySize, 1, 4, rng, per, checkShadow, cache);
}

// --------------------------------------------------------------------------- C09: sequences up to length 4 over argument classes
static void sequences_zone(ZoneRef z, int maxlen) {
  // argument classes: valid, below range, above range, sentinel
  const acetime_t cls[4] = {(acetime_t) (days_from_civil((g_rangeLo + g_rangeHi) / 2, 3, 14) * 86400 + 7200), (acetime_t) (days_from_civil(g_outLo, 7, 2) * 86400), (acetime_t) (days_from_civil(g_outHi, 7, 2) * 86400), LocalDate::kInvalidEpochSeconds};
  const char* cn[4] = {"valid", "below", "above", "sentinel"};
  const int ops[5] = {OP_OFFSET, OP_DELTA, OP_ABBREV, OP_LOCAL, OP_PRINT};
  int alphabet = 20;   // 4 classes x 5 ops
  long long total = 1; for (int i = 0; i < maxlen; i++) total *= alphabet;
  ExtendedZoneProcessor* xp = nullptr; BasicZoneProcessor* bp = nullptr;
  for (long long code = 0; code < total; code++) {
    TimeZone tz;
    if (z.kind) { delete xp; xp = new ExtendedZoneProcessor(); tz = TimeZone::forZoneInfo(zonedbx::kZoneRegistry[z.idx], xp); }
    else { delete bp; bp = new BasicZoneProcessor(); tz = TimeZone::forZoneInfo(zonedb::kZoneRegistry[z.idx], bp); }
    long long c = code; char hist[256]; int hp = 0;
    for (int i = 0; i < maxlen; i++) {
      int sym = (int) (c % alphabet); c /= alphabet;
      int ci = sym / 5, op = ops[sym % 5];
      hp += snprintf(hist + hp, sizeof hist - hp, "%s(%s); ", kOpNames[op], cn[ci]);
      STEP("zone=%s sequence: %s", zoneName(z), hist);
      std::string got = answer(tz, op, cls[ci]);
      CNT.add("hist.sequence_steps");
      if (op != OP_PRINT) {
        bool err = is_error_answer(op, got);
        if (ci != 0 && !err) { report("c09:out-of-range-not-error", "out-of-range/sentinel argument answered with a non-error value", z, hist, got, "error value"); break; }
        if (ci == 0 && err) { report("c09:in-range-error-after-history", "valid argument answered with an error value after a history", z, hist, got, "value"); break; }
      } else if (got != zoneName(z)) { report("c09:print-wrong-after-history", "printTo does not print the zone name", z, hist, got, zoneName(z)); break; }
    }
    CNT.add("hist.sequences");
  }
  delete xp; delete bp;
}

// --------------------------------------------------------------------------- C09: hostile arguments for the value types
static volatile long long g_sink = 0;
static void sink_ldt(const LocalDateTime& l) { StrPrint p; l.printTo(p); g_sink += (long long) p.buf.size() + l.isError() + (long long) l.toEpochSeconds() + (long long) l.toUnixSeconds() + (long long) l.toEpochDays() + (long long) l.toUnixDays() + l.dayOfWeek(); }

static void hostile_values(Rng& rng, long long nrandom) {
  const int16_t years[] = {-32768, -1, 0, 1872, 1873, 1874, 1931, 1932, 1999, 2000, 2038, 2068, 2069, 2126, 2127, 2128, 9999, 32767};
  const uint8_t months[] = {0, 1, 2, 12, 13, 255};
  const uint8_t days[] = {0, 1, 28, 29, 30, 31, 32, 255};
  const uint8_t hours[] = {0, 23, 24, 25, 255};
  const uint8_t mins[] = {0, 59, 60, 255};
  const int16_t offs[] = {-32768, -32767, -1440, -960, -1, 0, 1, 960, 1440, 32767};
  static ExtendedZoneProcessor xp; static BasicZoneProcessor bp;
  TimeZone zones[4] = {TimeZone::forUtc(), TimeZone::forZoneInfo(&zonedbx::kZoneAmerica_Los_Angeles, &xp), TimeZone::forZoneInfo(&zonedb::kZoneEurope_London, &bp), TimeZone::forError()};
  auto one = [&](int16_t y, uint8_t mo, uint8_t d, uint8_t h, uint8_t mi, uint8_t s, int16_t off) {
    STEP("value types with components (%d,%u,%u,%u,%u,%u) offset %d", y, mo, d, h, mi, s, off);
    CNT.add("hist.component_tuples");
    LocalDate ld = LocalDate::forComponents(y, mo, d);
    bool validDate = y >= 1873 && y <= 2127 && mo >= 1 && mo <= 12 && d >= 1 && d <= 31;
    bool validTime = (h < 24 && mi < 60 && s < 60) || (h == 24 && mi == 0 && s == 0);
    if (ld.isError() == validDate) { J j; j.num("y", y).num("m", mo).num("d", d); witness("c09:invalid-date-not-error", "invalid date components not flagged (or valid flagged)", j); }
    if (!ld.isError()) { g_sink += (long long) ld.toEpochDays() + (long long) ld.toUnixDays() + ld.dayOfWeek() + (long long) ld.toEpochSeconds() + (long long) ld.toUnixSeconds(); StrPrint p; ld.printTo(p); }
    else if (ld.isError()) { if (ld.toEpochDays() != LocalDate::kInvalidEpochDays || ld.toEpochSeconds() != LocalDate::kInvalidEpochSeconds || ld.toUnixDays() != LocalDate::kInvalidEpochDays || ld.toUnixSeconds() != LocalDate::kInvalidEpochSeconds) { J j; j.num("y", y).num("m", mo).num("d", d); witness("c09:error-date-not-sentinel", "error date converts to a non-sentinel", j); } StrPrint p; ld.printTo(p); }
    LocalTime lt = LocalTime::forComponents(h, mi, s);
    if (lt.isError() == validTime) { J j; j.num("h", h).num("mi", mi).num("s", s); witness("c09:invalid-time-not-error", "invalid time components not flagged", j); }
    { StrPrint p; lt.printTo(p); g_sink += lt.toSeconds(); }
    LocalDateTime ldt = LocalDateTime::forComponents(y, mo, d, h, mi, s);
    if (ldt.isError() != !(validDate && validTime)) { J j; j.num("y", y).num("m", mo).num("d", d).num("h", h); witness("c09:invalid-datetime-not-error", "LocalDateTime validity wrong", j); }
    bool inSeconds = validDate && validTime;   // incl. dates whose seconds do not fit int32 (documented limit, still executed)
    if (ldt.isError()) { if (ldt.toEpochSeconds() != LocalDate::kInvalidEpochSeconds || ldt.toUnixSeconds() != LocalDate::kInvalidEpochSeconds) { J j; witness("c09:error-datetime-not-sentinel", "error LocalDateTime converts to a non-sentinel", j); } StrPrint p; ldt.printTo(p); }
    else if (inSeconds) sink_ldt(ldt);
    TimeOffset to = TimeOffset::forMinutes(off);
    OffsetDateTime odt = OffsetDateTime::forComponents(y, mo, d, h, mi, s, to);
    bool odtErr = !(validDate && validTime) || off == -32768;
    if (odt.isError() != odtErr) { J j; j.num("y", y).num("off", off); witness("c09:offsetdatetime-validity", "OffsetDateTime validity wrong", j); }
    if (odt.isError()) { if (odt.toEpochSeconds() != LocalDate::kInvalidEpochSeconds || odt.toUnixSeconds() != LocalDate::kInvalidEpochSeconds || odt.toEpochDays() != LocalDate::kInvalidEpochDays) { J j; witness("c09:error-odt-not-sentinel", "error OffsetDateTime converts to a non-sentinel", j); } StrPrint p; odt.printTo(p); }
    else if (inSeconds) { g_sink += (long long) odt.toEpochSeconds() + (long long) odt.toEpochDays() + (long long) odt.toUnixSeconds() + (long long) odt.toUnixDays(); StrPrint p; odt.printTo(p); OffsetDateTime c = odt.convertToTimeOffset(TimeOffset::forMinutes(330)); g_sink += c.isError(); }
    for (TimeZone& tz : zones) {
      ZonedDateTime z = ZonedDateTime::forComponents(y, mo, d, h, mi, s, tz);
      if (!(validDate && validTime) && !z.isError()) { J j; j.num("y", y).num("m", mo).num("d", d).num("h", h).num("type", tz.getType()); witness("c09:invalid-components-zdt-not-error", "ZonedDateTime from invalid components is not an error", j); }
      if (tz.isError() && !z.isError()) { J j; witness("c09:error-zone-zdt-not-error", "ZonedDateTime in the error zone is not an error", j); }
      if (z.isError()) { if (z.toEpochSeconds() != LocalDate::kInvalidEpochSeconds || z.toUnixSeconds() != LocalDate::kInvalidEpochSeconds || z.toEpochDays() != LocalDate::kInvalidEpochDays || z.toUnixDays() != LocalDate::kInvalidEpochDays) { J j; witness("c09:error-zdt-not-sentinel", "error ZonedDateTime converts to a non-sentinel", j); } }
      StrPrint p; z.printTo(p);
      if (!z.isError() && inSeconds) { ZonedDateTime c = z.convertToTimeZone(zones[1]); g_sink += (long long) c.toEpochSeconds() + (long long) z.toUnixSeconds() + (long long) z.toUnixDays() + (long long) z.toEpochDays(); }
    }
  };
  for (int16_t y : years) for (uint8_t mo : months) for (uint8_t d : days) for (uint8_t h : hours) for (uint8_t mi : mins) for (int16_t off : offs) one(y, mo, d, h, mi, (uint8_t) (mi == 255 ? 255 : 0), off);
  for (long long i = 0; i < nrandom; i++) {
    int16_t y = (int16_t) (rng.below(4) ? rng.range(1870, 2130) : rng.range(-32768, 32767));
    one(y, (uint8_t) rng.below(rng.below(3) ? 14 : 256), (uint8_t) rng.below(rng.below(3) ? 34 : 256), (uint8_t) rng.below(rng.below(3) ? 26 : 256), (uint8_t) rng.below(rng.below(3) ? 62 : 256), (uint8_t) rng.below(rng.below(3) ? 62 : 256), (int16_t) (rng.below(3) ? rng.range(-1000, 1000) : rng.range(-32768, 32767)));
  }
  // epoch-seconds factories at the int32 edges and on a stride
  const int64_t edges[] = {INT32_MIN, INT32_MIN + 1LL, INT32_MIN + 2LL, -2147472001LL, -2147472000LL, -1, 0, 1, 1577923199LL, 1577923200LL, 2147397247LL, INT32_MAX - 1LL, INT32_MAX};
  std::vector<int64_t> ts(edges, edges + sizeof edges / sizeof edges[0]);
  for (int64_t t = INT32_MIN + 7LL; t <= INT32_MAX; t += 15485863) ts.push_back(t);
  for (int64_t t : ts) for (int16_t off : offs) {
    STEP("epoch-seconds factories t=%lld offset %d", (long long) t, off);
    CNT.add("hist.epoch_cases");
    LocalDateTime ldt = LocalDateTime::forEpochSeconds((acetime_t) t);
    if ((t == INT32_MIN) != ldt.isError()) { J j; j.num("t", t); witness("c09:epoch-factory-validity", "LocalDateTime::forEpochSeconds validity wrong", j); }
    if (!ldt.isError()) g_sink += ldt.toEpochSeconds();
    LocalDate ld = LocalDate::forEpochSeconds((acetime_t) t); g_sink += ld.isError();
    LocalDate lds = LocalDate::forUnixSeconds((acetime_t) t); g_sink += lds.isError();
    LocalDate ldd = LocalDate::forEpochDays((acetime_t) t); g_sink += ldd.isError();      // the same extreme values taken as day counts
    LocalDate ldu = LocalDate::forUnixDays((acetime_t) t); g_sink += ldu.isError();
    LocalDate ldd2 = LocalDate::forEpochDays((acetime_t) (t / 40000)); g_sink += ldd2.isError() + (long long) ldd2.toEpochDays();
    OffsetDateTime odt = OffsetDateTime::forEpochSeconds((acetime_t) t, TimeOffset::forMinutes(off));
    if (t == INT32_MIN && !odt.isError()) { J j; witness("c09:sentinel-odt-not-error", "OffsetDateTime of the sentinel is not an error", j); }
    if (!odt.isError()) g_sink += odt.toEpochSeconds();
    OffsetDateTime ou = OffsetDateTime::forUnixSeconds((acetime_t) t, TimeOffset::forMinutes(off)); g_sink += ou.isError();
    LocalDateTime lu = LocalDateTime::forUnixSeconds((acetime_t) t); g_sink += lu.isError();
    for (TimeZone& tz : zones) {
      ZonedDateTime z = ZonedDateTime::forEpochSeconds((acetime_t) t, tz);
      if (t == INT32_MIN && !z.isError()) { J j; witness("c09:sentinel-zdt-not-error", "ZonedDateTime of the sentinel is not an error", j); }
      ZonedDateTime zu = ZonedDateTime::forUnixSeconds((acetime_t) t, tz); g_sink += zu.isError();
      StrPrint p; z.printTo(p);
      g_sink += z.toEpochSeconds();
    }
    TimePeriod tp((int32_t) t); g_sink += tp.toSeconds();
  }
  // date strings: garbage of sufficient length must not crash
  const char* strs[] = {"2019-05-20T12:34:56-07:30", "0000-00-00T00:00:00+00:00", "9999-99-99T99:99:99-99:99", "\xff\xff\xff\xff\xff\xff\xff\xff\xff\xff\xff\xff\xff\xff\xff\xff\xff\xff\xff\xff\xff\xff\xff\xff\xff", "2019-05-20T12:34:56x07:30", "                         ", "2019/05/20 12.34.56+07:30xyz"};
  for (const char* s : strs) {
    STEP("date string '%s'", s);
    CNT.add("hist.string_cases");
    OffsetDateTime o = OffsetDateTime::forDateString(s); ZonedDateTime z = ZonedDateTime::forDateString(s); LocalDateTime l = LocalDateTime::forDateString(s);
    OffsetDateTime of = OffsetDateTime::forDateString(F("2019-05-20T12:34:56-07:30")); LocalDateTime lf = LocalDateTime::forDateString(F("2019-05-20T12:34:56"));
    OffsetDateTime of2 = OffsetDateTime::forDateString(F("2019-05-20T12:34:56-07:30EXTRA")); LocalDateTime lf2 = LocalDateTime::forDateString(F("2019-05-20T12:34:56EXTRA"));
    if (!of2.isError() || !lf2.isError() || of.isError() || lf.isError()) { J j; witness("c09:flash-string-length-gate", "flash-string factory length gate wrong", j); }
    StrPrint p; o.printTo(p); z.printTo(p); l.printTo(p);
  }
  // DateStrings with any index
  for (int i = 0; i < 256; i++) { DateStrings ds; g_sink += strlen(ds.monthLongString((uint8_t) i)) + strlen(ds.monthShortString((uint8_t) i)) + strlen(ds.dayOfWeekLongString((uint8_t) i)) + strlen(ds.dayOfWeekShortString((uint8_t) i)); CNT.add("hist.datestring_cases"); }
}

// --------------------------------------------------------------------------- C09: abbreviation builders never write past the destination
class ExtendedZoneProcessorTest_createAbbreviation {
  public:
    static void run(char* d, uint8_t n, const char* f, uint16_t delta, const char* letter) { ExtendedZoneProcessor::createAbbreviation(d, n, f, delta, letter); }
};
class BasicZoneProcessorTest_createAbbreviation {
  public:
    static void run(char* d, uint8_t n, const char* f, int16_t delta, char letter) { BasicZoneProcessor::createAbbreviation(d, n, f, delta, letter); }
};
static std::string abbrev_oracle(const std::string& fmt, int delta, const char* letter, size_t cap) {
  std::string out;
  size_t pc = fmt.find('%');
  if (pc != std::string::npos) {
    if (letter == nullptr) out = fmt;
    else { for (char c : fmt) { if (c == '%') out += letter; else out.push_back(c); } }
  } else {
    size_t sl = fmt.find('/');
    if (sl != std::string::npos) out = delta == 0 ? fmt.substr(0, sl) : fmt.substr(sl + 1); else out = fmt;
  }
  if (out.size() > cap) out.resize(cap);
  return out;
}
static void abbreviations() {
  const char* fmts[] = {"", "A", "GMT", "P%T", "%", "E%T", "ABCDEF", "ABCDEFG", "ABCDEFGHIJKL", "AB%CDEF", "%ABCDEFGH", "ABCDEF%", "GMT/BST", "ABCDEFG/HIJKLMNOP", "/", "A/", "/B", "+03/+04", "ABCDEF/GHIJKLM"};
  const char* letters[] = {nullptr, "", "S", "D", "WAT", "LONGER", "VERYLONGLETTER"};
  const uint8_t n = extended::Transition::kAbbrevSize;
  for (const char* f : fmts) for (const char* l : letters) for (int delta : {0, 60}) {
    char* d = new char[n]; memset(d, 'x', n);      // exact-size heap buffer: ASan sees one-past writes
    STEP("ExtendedZoneProcessor::createAbbreviation(format='%s', delta=%d, letter=%s)", f, delta, l ? l : "null");
    ExtendedZoneProcessorTest_createAbbreviation::run(d, n, f, (uint16_t) delta, l);
    CNT.add("hist.abbrev_cases");
    bool terminated = memchr(d, 0, n) != nullptr;
    std::string want = abbrev_oracle(f, delta, l, n - 1);
    if (!terminated || want != d) { J j; j.str("format", f).str("letter", l ? l : "<null>").num("delta", delta).str("got", terminated ? d : "<unterminated>").str("want", want); witness("c09:abbrev-builder-wrong-or-unterminated", "extended createAbbreviation output is not the truncated expansion / not terminated inside the buffer", j); }
    delete[] d;
  }
  const char lets[] = {'\0', '-', 'S', 'D'};
  for (const char* f : fmts) for (char l : lets) for (int delta : {0, 60}) {
    char* d = new char[n]; memset(d, 'x', n);
    STEP("BasicZoneProcessor::createAbbreviation(format='%s', delta=%d, letter=%d)", f, delta, l);
    BasicZoneProcessorTest_createAbbreviation::run(d, n, f, (int16_t) delta, l);
    CNT.add("hist.abbrev_cases");
    bool terminated = memchr(d, 0, n) != nullptr;
    char lb[2] = {l, 0};
    std::string want = abbrev_oracle(f, delta, l == 0 ? nullptr : (l == '-' ? "" : lb), n - 1);
    if (!terminated || want != d) { J j; j.str("format", f).num("letter", l).num("delta", delta).str("got", terminated ? d : "<unterminated>").str("want", want); witness("c09:abbrev-builder-wrong-or-unterminated", "basic createAbbreviation output is not the truncated expansion / not terminated inside the buffer", j); }
    delete[] d;
  }
}

// --------------------------------------------------------------------------- C09: buffer bounds
extern "C" long long aceTimeVerifDropped;
static void buffers(int shard, int nsh) {
  for (uint16_t i = 0; i < zonedbx::kZoneRegistrySize; i++) {
    if (i % nsh != shard) continue;
    const extended::ZoneInfo* zi = zonedbx::kZoneRegistry[i];
    int worst = 0;
    for (int pass = 0; pass < 3; pass++) {
      ExtendedZoneProcessor* p = new ExtendedZoneProcessor(); TimeZone tz = TimeZone::forZoneInfo(zi, p);
      for (int k = 0; k <= 51; k++) {
        int y = pass == 1 ? 2050 - k : 1999 + k;
        acetime_t t = (acetime_t) (days_from_civil(y, 6, 15) * 86400);
        STEP("buffers zone=%s year=%d pass=%d", zi->name, y, pass);
        p->resetTransitionHighWater();
        if (pass == 2) { LocalDateTime l = LocalDateTime::forComponents((int16_t) y, 6, 15, 12, 0, 0); g_sink += tz.getOffsetDateTime(l).isError(); }
        else g_sink += tz.getUtcOffset(t).toMinutes();
        int hw = p->getTransitionHighWater();
        CNT.add("hist.buffer_year_fills");
        if (hw > worst) worst = hw;
        if (hw >= zi->transitionBufSize || hw >= 8) { J j; j.str("zone", zi->name).num("year", y).num("high_water", hw).num("recorded_buf_size", zi->transitionBufSize); witness("c09:transition-pool-high-water", "transition pool high-water mark reaches the size recorded for the zone / the pool capacity", j); }
      }
      delete p;
    }
    CNT.maxi("hist.max_high_water", worst);
    CNT.maxi("hist.max_slack_used_pct", worst * 100 / (zi->transitionBufSize ? zi->transitionBufSize : 1));
  }
  for (uint16_t i = 0; i < zonedb::kZoneRegistrySize; i++) {
    if (i % nsh != shard) continue;
    long long d0 = aceTimeVerifDropped;
    BasicZoneProcessor* p = new BasicZoneProcessor(); TimeZone tz = TimeZone::forZoneInfo(zonedb::kZoneRegistry[i], p);
    for (int pass = 0; pass < 2; pass++) for (int k = 0; k <= 51; k++) {
      int y = pass ? 2050 - k : 1999 + k;
      STEP("buffers(basic) zone=%s year=%d", zonedb::kZoneRegistry[i]->name, y);
      g_sink += tz.getUtcOffset((acetime_t) (days_from_civil(y, 6, 15) * 86400)).toMinutes();
      g_sink += tz.getUtcOffset((acetime_t) (days_from_civil(y, 1, 1) * 86400)).toMinutes();
      CNT.add("hist.buffer_year_fills");
    }
    if (aceTimeVerifDropped != d0) { J j; j.str("zone", zonedb::kZoneRegistry[i]->name).num("dropped", aceTimeVerifDropped - d0); witness("c09:basic-transition-dropped", "basic processor needed more than its five cache slots", j); }
    CNT.add("hist.basic_hook_zones");
    delete p;
  }
}

// --------------------------------------------------------------------------- C09: degenerate shapes
// Registries of size 0 (a null pointer; the end of a heap block, so that any read is a red-zone hit) and of size 1, under
// both managers and the bare registrar: construction and every lookup must stay inside the registry. Built at -O0 as well:
// an optimiser may delete a dead out-of-bounds load and with it the evidence.
template <typename ZI, typename MGR, typename REG>
static void degenerate_one(const char* kind, const ZI* const* full, uint16_t fullSize) {
  const ZI** heap0 = new const ZI*[1]; heap0[0] = full[0];
  const ZI* const* shapes[3] = {nullptr, heap0 + 1, full};
  uint16_t sizes[3] = {0, 0, 1};
  static const char* names[] = {"", "x", "America/Los_Angeles", "Africa/Abidjan", "Zulu", "\xff"};
  for (int sh = 0; sh < 3; sh++) {
    STEP("degenerate kind=%s shape=%d construct", kind, sh);
    REG reg(sizes[sh], shapes[sh]);
    MGR mgr(sizes[sh], shapes[sh]);
    CNT.add("hist.degenerate_registries");
    for (const char* nm : names) {
      STEP("degenerate kind=%s shape=%d name=%s", kind, sh, nm);
      const ZI* zi = reg.getZoneInfoForName(nm);
      TimeZone tz = mgr.createForZoneName(nm);
      uint16_t ix = mgr.indexForZoneName(nm);
      bool want = sizes[sh] == 1 && !strcmp(nm, full[0]->name);
      CNT.add("hist.degenerate_lookups", 3);
      if ((zi != nullptr) != want || tz.isError() == want || (ix != 0xffff) != want) { J j; j.str("kind", kind).num("shape", sh).str("name", nm); witness("c09:degenerate-registry-lookup", "lookup on an empty / one-entry registry gives a wrong answer", j); }
    }
    for (uint32_t id : {0u, 1u, 0xffffffffu, (uint32_t) full[0]->zoneId}) {
      STEP("degenerate kind=%s shape=%d id=%u", kind, sh, id);
      TimeZone tz = mgr.createForZoneId(id); uint16_t ix = mgr.indexForZoneId(id);
      TimeZoneData d(id); TimeZone tr = mgr.createForTimeZoneData(d);
      bool want = sizes[sh] == 1 && id == full[0]->zoneId;
      CNT.add("hist.degenerate_lookups", 3);
      if (tz.isError() == want || tr.isError() == want || (ix != 0xffff) != want) { J j; j.str("kind", kind).num("shape", sh).num("id", id); witness("c09:degenerate-registry-lookup", "lookup on an empty / one-entry registry gives a wrong answer", j); }
    }
    for (uint16_t ix : {(uint16_t) 0, (uint16_t) 1, (uint16_t) 2, (uint16_t) 0x7fff, (uint16_t) 0xffff}) {
      STEP("degenerate kind=%s shape=%d index=%u", kind, sh, ix);
      TimeZone tz = mgr.createForZoneIndex(ix);
      bool want = ix < sizes[sh];
      CNT.add("hist.degenerate_lookups");
      if (tz.isError() == want) { J j; j.str("kind", kind).num("shape", sh).num("index", ix); witness("c09:degenerate-registry-lookup", "lookup on an empty / one-entry registry gives a wrong answer", j); }
      if (want) { g_sink += tz.getUtcOffset(0).toMinutes(); StrPrint sp; tz.printTo(sp); }
    }
    if (mgr.registrySize() != sizes[sh]) { J j; j.str("kind", kind).num("shape", sh); witness("c09:degenerate-registry-lookup", "registrySize wrong", j); }
  }
  delete[] heap0;
}

static void degenerate() {
  degenerate_one<basic::ZoneInfo, BasicZoneManager<1>, BasicZoneRegistrar>("basic", zonedb::kZoneRegistry, zonedb::kZoneRegistrySize);
  degenerate_one<extended::ZoneInfo, ExtendedZoneManager<2>, ExtendedZoneRegistrar>("extended", zonedbx::kZoneRegistry, zonedbx::kZoneRegistrySize);
}

int main(int argc, char** argv) {
  Args a(argc, argv);
  std::string mode = a.get("mode");
  PROP = a.get("prop", "c08");
  arm();
  set_range_from_db();
  g_outLo = std::min(zonedb::kZoneContext.startYear, zonedbx::kZoneContext.startYear) - 2;
  g_outHi = std::max(zonedb::kZoneContext.untilYear, zonedbx::kZoneContext.untilYear) + 1;
  build_args();
  int shard = a.shard(), nsh = a.nshards();
  Rng rng(a.num("seed", 0) * 977 + shard + 11);
  bool checkShadow = !a.has("noshadow");
  if (mode == "pairs") {
    // zones: every (kind, index) assigned round-robin; optional cap via --zones N seed-chosen
    std::vector<ZoneRef> all;
    for (uint16_t i = 0; i < zonedb::kZoneRegistrySize; i++) all.push_back({0, i});
    for (uint16_t i = 0; i < zonedbx::kZoneRegistrySize; i++) all.push_back({1, i});
    long long cap = a.num("zones", 0);
    if (cap > 0) { Rng r2(a.num("seed", 0) + 99); for (size_t i = all.size() - 1; i > 0; i--) std::swap(all[i], all[r2.below((uint32_t) i + 1)]); all.resize((size_t) cap); }
    for (size_t i = 0; i < all.size(); i++) if ((int) (i % nsh) == shard) { pairs_zone(all[i], checkShadow); CNT.add("hist.pair_zones"); if (i < 2) { J j; j.str("kind", "pairs").str("zone", zoneName(all[i])).num("args", (long long) g_args.size()); sample(j); } }
  } else if (mode == "shared") shared_random(rng, a.num("steps", 20000), checkShadow);
  else if (mode == "managers") managers(rng, a.num("steps", 20000), checkShadow);
  else if (mode == "sequences") {
    std::vector<ZoneRef> zs = {{1, 0}, {0, 0}};
    Rng r2(a.num("seed", 0) + 5);
    long long nz = a.num("zones", 6);
    for (long long i = 0; i < nz; i++) { zs.push_back({1, (uint16_t) r2.below(zonedbx::kZoneRegistrySize)}); zs.push_back({0, (uint16_t) r2.below(zonedb::kZoneRegistrySize)}); }
    for (size_t i = 0; i < zs.size(); i++) if ((int) (i % nsh) == shard) sequences_zone(zs[i], (int) a.num("len", 3));
  } else if (mode == "hostile") { if (shard == 0) abbreviations(); hostile_values(rng, a.num("random", 100000)); }
  else if (mode == "buffers") buffers(shard, nsh);
  else if (mode == "degenerate") degenerate();
  else { fprintf(stderr, "unknown mode\n"); return 3; }
  CNT.flush();
  return 0;
}
