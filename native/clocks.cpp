// clocks driver: SystemClock (C13) and SystemClockLoop (C14) under an injected millis().
#include "vcommon.h"
#include <unistd.h>
#include <AceTime.h>
#include <ace_time/testing/FakeClock.h>

using namespace ace_time;
using namespace ace_time::clock;
using namespace verif;

static uint64_t g_true_ms = 0;            // true elapsed time, never wraps
static uint32_t g_base = 0;               // counter value at true time 0
// Logical step bound ("no operation hangs" decided on steps, not on wall time): the library reads the counter through
// clockMillis(); a million reads while the injected time stands still means the operation in progress is not going to return
// (SystemClock::getNow() documents at most 65 iterations per call).
static const char* g_hang_key = "c13:operation-does-not-terminate";
static uint64_t g_reads_at_one_ms = 0, g_last_read_ms = ~0ULL, g_max_reads_at_one_ms = 0;
static void hang_detected();
static inline void note_counter_read() {
  if (g_true_ms == g_last_read_ms) { if (++g_reads_at_one_ms > 1000000ULL) hang_detected(); if (g_reads_at_one_ms > g_max_reads_at_one_ms) g_max_reads_at_one_ms = g_reads_at_one_ms; }
  else { g_last_read_ms = g_true_ms; g_reads_at_one_ms = 0; }
}
static inline uint32_t counter_now() { note_counter_read(); return (uint32_t) (g_base + g_true_ms); }
// C14: SystemClockLoop does its arithmetic in `unsigned long`, so its counter wraps at ULONG_MAX (2^32 on the
// target boards, 2^64 on this host): the loop driver uses a full-width base, the shadow SystemClock the low bits.
static unsigned long g_base_ul = 0;
static inline unsigned long counter_now_ul() { note_counter_read(); return g_base_ul + (unsigned long) g_true_ms; }
static void hang_detected() {
  J j; j.num("true_ms", (long long) g_true_ms).num("counter32", (long long) (uint32_t) (g_base + g_true_ms)).num("counter_ul", (unsigned long long) (g_base_ul + (unsigned long) g_true_ms)).num("counter_reads_without_time_advancing", (long long) g_reads_at_one_ms);
  witness(g_hang_key, "a clock operation read the millisecond counter a million times while time stood still: it does not terminate", j);
  CNT.flush(); fflush(stdout); _exit(0);
}

static const acetime_t kInv = Clock::kInvalidSeconds;

// --------------------------------------------------------------------------- C13
class TClock: public SystemClock {
  public:
    TClock(Clock* r, Clock* b): SystemClock(r, b) {}
    unsigned long clockMillis() const override { return counter_now(); }
    acetime_t cached() const { return mEpochSeconds; }
};

// exhaustive single-step: every start phase x every gap
static void c13_pairs(int shard, int nshards, bool allgaps) {
  std::vector<uint32_t> gaps;
  if (allgaps) { for (uint32_t g = 1; g <= 64536; g++) gaps.push_back(g); }
  else {
    for (uint32_t g = 1; g <= 1100; g++) gaps.push_back(g);
    for (uint32_t k = 2; k <= 64; k++) for (int d = -2; d <= 2; d++) { uint32_t g = k * 1000 + d; if (g <= 64536) gaps.push_back(g); }
    for (uint32_t g = 64000; g <= 64536; g++) gaps.push_back(g);
    Rng r(99); for (int i = 0; i < 300; i++) gaps.push_back((uint32_t) r.range(1101, 63999));
  }
  const uint32_t bases[3] = {0xFFFF0000u, 0u, 0x7FFF8000u};
  int nb = allgaps ? 1 : 3;
  for (int bi = 0; bi < nb; bi++) {
    for (uint32_t p = shard; p < 65536; p += nshards) {
      for (uint32_t g : gaps) {
        g_base = bases[bi] + p; g_true_ms = 0;
        TClock c(nullptr, nullptr);
        const acetime_t T = (acetime_t) (1000000 + p);
        c.setNow(T);
        acetime_t r0 = c.getNow();
        g_true_ms = g;
        acetime_t r1 = c.getNow();
        // second poll: largest admissible gap after the remainder carried from the first
        uint32_t rem = g % 1000;
        uint32_t g2 = 65535 - rem;
        g_true_ms = (uint64_t) g + g2;
        acetime_t r2 = c.getNow();
        CNT.add("c13.pairs");
        acetime_t w1 = T + (acetime_t) (g / 1000), w2 = T + (acetime_t) ((g + g2) / 1000);
        if (r0 != T || r1 != w1 || r2 != w2) {
          J j; j.num("counter_at_set", g_base).num("gap1", g).num("gap2", g2).num("T", T).num("read0", r0).num("read1", r1).num("read2", r2).num("want1", w1).num("want2", w2);
          witness("c13:reading-wrong", "reading != T + floor((m - m0)/1000)", j);
        }
        if (p == 4242 && (g == 999 || g == 1000 || g == 64536)) { J j; j.str("kind", "pair").num("counter_at_set", g_base).num("gap1", g).num("gap2", g2).num("read1", r1).num("read2", r2); sample(j); }
      }
    }
  }
}

// Random multi-step schedules against the statement's formula (model S) and the
// "setNow of the cached value is ignored" variant (model F, used only to *classify*
// a deviation under the known mechanism, never to accept an arbitrary one).
struct Model {
  bool init = false; acetime_t T = kInv; uint64_t m0 = 0;
  acetime_t read(uint64_t now) const { return init ? (acetime_t) (T + (int64_t) ((now - m0) / 1000)) : kInv; }
};

// a reference clock that can be read but not set (an NTP-like source): Clock::setNow() is the inherited no-op
class ReadOnlyClock: public Clock {
  public:
    acetime_t value = Clock::kInvalidSeconds;
    acetime_t getNow() const override { return value; }
};

static void c13_schedules(int shard, long long seed, long long nsteps) {
  Rng rng(seed * 1000 + shard);
  long long done = 0;
  long long sets_equal_cached = 0;
  while (done < nsteps) {
    // one schedule
    static const uint32_t bases[6] = {0u, 0xFFFFFF00u, 0xFFFF0000u, 0x0000FF00u, 0x7FFFFFF0u, 0xFFFF8000u};
    g_base = bases[rng.below(6)] + rng.below(2000); g_true_ms = 0;
    testing::FakeClock backup, reference;
    ReadOnlyClock ro;
    ro.value = rng.below(2) ? kInv : (acetime_t) rng.range(1, 1500000000);     // unreachable, or reporting some other time
    int cfg = rng.below(5);   // 0: none, 1: distinct backup, 2: backup==reference, 3: reference only, 4: read-only reference
    Clock* refp = (cfg == 2 || cfg == 3) ? (Clock*) &reference : (cfg == 4 ? (Clock*) &ro : nullptr);
    Clock* bakp = (cfg == 1) ? (Clock*) &backup : (cfg == 2 ? (Clock*) &reference : nullptr);
    TClock c(refp, bakp);
    Model S, F;
    // setup(): with a backup clock the system clock starts from the backup's time
    if (rng.below(3) == 0) {
      acetime_t bv = (acetime_t) rng.range(1, 1500000000);
      if (bakp) bakp->setNow(bv);
      c.setup();
      CNT.add("c13.setups");
      if (bakp) { S.init = true; S.T = bv; S.m0 = g_true_ms; F = S; }
      if (c.isInit() != S.init || c.getNow() != S.read(g_true_ms)) { J j; j.num("cfg", cfg).num("backup_value", bv).num("got", c.getNow()); witness("c13:setup-from-backup-wrong", "setup() did not initialise the clock from the backup clock (or initialised it without one)", j); continue; }
    }
    uint64_t last_event = 0;          // true time of last poll/effective set
    acetime_t last_read = kInv; bool have_last = false;
    acetime_t lastSync = kInv;
    int len = 20 + rng.below(400);
    std::string trace;
    bool tainted = false;             // F and S diverged: known mechanism in play for this schedule
    for (int i = 0; i < len; i++, done++) {
      // advance
      uint32_t room = 64536;
      uint32_t gap;
      switch (rng.below(8)) {
        case 0: gap = 1 + rng.below(5); break;
        case 1: gap = 995 + rng.below(10); break;
        case 2: gap = 1000 * (1 + rng.below(64)) + rng.below(3) - 1; break;
        case 3: gap = room - rng.below(3); break;
        default: gap = 1 + rng.below(room); break;
      }
      uint64_t since = g_true_ms - last_event;
      if (since + gap > room) gap = (uint32_t) (room - since);
      g_true_ms += gap;
      int op = rng.below(20);
      char tb[96];
      if (op < 13) {
        acetime_t r = c.getNow();
        acetime_t ws = S.read(g_true_ms), wf = F.read(g_true_ms);
        CNT.add("c13.sched_reads");
        snprintf(tb, sizeof tb, "+%u get=%d;", gap, r); if (trace.size() < 1500) trace += tb;
        if (r != ws) {
          if (r == wf) {
            J j; j.str("trace", trace).num("read", r).num("want", ws);
            witness("c13:setnow-equal-cached-value-keeps-old-phase", "after setNow(T) with T equal to the clock's cached value the phase is not restarted", j);
          } else {
            J j; j.str("trace", trace).num("read", r).num("want", ws).num("counter", counter_now());
            witness("c13:reading-wrong", "reading != T + floor((m - m0)/1000) on a multi-step schedule", j);
          }
          // resynchronise the models on the implementation to keep later verdicts meaningful
          break;
        }
        if (have_last && S.init && r < last_read && !tainted) { J j; j.str("trace", trace); witness("c13:not-monotonic", "reading decreased between settings", j); }
        last_read = r; have_last = true;
        if (S.init) last_event = g_true_ms;
        if (c.isInit() != S.init) { J j; j.str("trace", trace); witness("c13:isInit-wrong", "isInit disagrees with whether the clock was set", j); }
      } else if (op < 18) {
        acetime_t v;
        int how = rng.below(6);
        acetime_t cached = c.cached();
        if (how == 0 && S.init) v = S.read(g_true_ms);            // same as the true current reading
        else if (how == 1 && cached != kInv) v = cached;           // same as the cached (possibly stale) value
        else if (how == 2) v = (acetime_t) rng.range(-2000000000LL, 2000000000LL);
        else if (how == 3 && S.init) v = S.read(g_true_ms) + (rng.below(2) ? 1 : -1);
        else v = (acetime_t) rng.range(0, 1500000000);
        bool ignored_by_mechanism = (cached == v);
        if (ignored_by_mechanism) sets_equal_cached++;
        // one set in four on a clock with a distinct backup goes through setup(): "start from the backup clock's time"
        bool viaSetup = (cfg == 1 && rng.below(4) == 0);
        if (viaSetup) { backup.setNow(v); c.setup(); CNT.add("c13.sets_through_setup"); } else c.setNow(v);
        CNT.add("c13.sched_sets");
        snprintf(tb, sizeof tb, "+%u set(%d)%s;", gap, v, ignored_by_mechanism ? "[=cached]" : ""); if (trace.size() < 1500) trace += tb;
        S.init = true; S.T = v; S.m0 = g_true_ms;
        if (!ignored_by_mechanism) { F = S; last_event = g_true_ms; } else { tainted = true; }
        lastSync = v;
        have_last = false;
        if (c.getLastSyncTime() != v) { J j; j.str("trace", trace); witness("c13:lastSyncTime-wrong", "getLastSyncTime != last value set", j); }
        if (refp && cfg != 4 && reference.getNow() != v) { J j; j.str("trace", trace); witness("c13:reference-not-set", "setNow did not propagate to the reference clock", j); }
        if (cfg == 4) CNT.add("c13.sets_with_read_only_reference");
      } else if (op == 18 && refp && rng.below(2)) {
        // forceSync(): read the reference clock now and set the system clock from it
        acetime_t v = (acetime_t) rng.range(0, 1500000000);
        acetime_t cached = c.cached();
        if (cfg == 4) ro.value = v; else reference.setNow(v);
        c.forceSync();
        CNT.add("c13.force_syncs");
        snprintf(tb, sizeof tb, "+%u forceSync(ref=%d)%s;", gap, v, cached == v ? "[=cached]" : ""); if (trace.size() < 1500) trace += tb;
        S.init = true; S.T = v; S.m0 = g_true_ms;
        if (cached != v) { F = S; last_event = g_true_ms; } else { tainted = true; }
        have_last = false;
        if (c.getLastSyncTime() != v) { J j; j.str("trace", trace); witness("c13:lastSyncTime-wrong", "getLastSyncTime != value taken by forceSync", j); }
      } else {
        acetime_t before_sync = c.getLastSyncTime();
        // the sentinel arrives by setNow(), or - on a clock with a distinct backup - by setup() from a backup clock that
        // has nothing to report (an RTC that does not answer): ignored either way, the clock keeps running
        bool viaSetup = (cfg == 1 && rng.below(2) == 0);
        // ... or by forceSync() from a reference clock that has nothing to report (an NTP request that timed out)
        bool viaForce = (!viaSetup && (cfg == 3 || cfg == 4) && rng.below(2) == 0);
        if (viaSetup) { acetime_t keep = backup.getNow(); backup.setNow(kInv); c.setup(); backup.setNow(keep); CNT.add("c13.invalid_sets_through_setup"); }
        else if (viaForce) {
          acetime_t keep = cfg == 4 ? ro.value : reference.getNow();
          if (cfg == 4) ro.value = kInv; else reference.setNow(kInv);
          c.forceSync();
          if (cfg == 4) ro.value = keep; else reference.setNow(keep);
          CNT.add("c13.invalid_sets_through_forceSync");
        }
        else c.setNow(kInv);
        CNT.add("c13.sched_invalid_sets");
        snprintf(tb, sizeof tb, "+%u %s(INVALID);", gap, viaSetup ? "setup" : (viaForce ? "forceSync" : "set")); if (trace.size() < 1500) trace += tb;
        if (c.getLastSyncTime() != before_sync || c.isInit() != S.init) { J j; j.str("trace", trace); witness("c13:invalid-set-not-ignored", "setNow(kInvalidSeconds) changed the clock state", j); }
      }
    }
    if (done < 2000 && trace.size() > 10) { J j; j.str("kind", "schedule").num("counter_base", g_base).str("trace", trace.substr(0, 300)); sample(j, 4); }
  }
  CNT.add("c13.sets_equal_cached", sets_equal_cached);
}

// --------------------------------------------------------------------------- C14
struct Ev { char kind; uint64_t ms; acetime_t v; };   // 'q' sendRequest, 'i' isResponseReady, 'r' readResponse, 's' setNow, 'g' getNow
class LogClock: public Clock {
  public:
    mutable std::vector<Ev> log;
    bool ready = false; acetime_t response = 0; acetime_t now = 0;
    acetime_t getNow() const override { log.push_back({'g', g_true_ms, now}); return now; }
    void sendRequest() const override { log.push_back({'q', g_true_ms, 0}); }
    bool isResponseReady() const override { log.push_back({'i', g_true_ms, ready}); return ready; }
    acetime_t readResponse() const override { log.push_back({'r', g_true_ms, response}); return response; }
    void setNow(acetime_t v) override { log.push_back({'s', g_true_ms, v}); now = v; }
    size_t count(char k) const { size_t n = 0; for (auto& e : log) if (e.kind == k) n++; return n; }
};

class SystemClockLoopTest_loop {   // friend of SystemClockLoop: read FSM state for coverage evidence
  public:
    static uint8_t status(const SystemClockLoop& c) { return c.mRequestStatus; }
    static uint16_t period(const SystemClockLoop& c) { return c.mCurrentSyncPeriodSeconds; }
};

class TLoop: public SystemClockLoop {
  public:
    TLoop(Clock* r, Clock* b, uint16_t s, uint16_t i, uint16_t to, ace_common::TimingStats* stats = nullptr): SystemClockLoop(r, b, s, i, to, stats) {}
    unsigned long clockMillis() const override { return counter_now_ul(); }
};

// C13 with loop() as the poller: "any polling schedule" includes an application that never calls getNow() for minutes
// and relies on SystemClockLoop::loop() (whose keepAlive() services the 16-bit millisecond bookkeeping), with no
// reference clock or with one that never answers.  The clock is read once, at the end.
static void c13_loop_pollers(int shard, long long seed, long long n) {
  Rng rng(seed * 77 + shard + 3);
  for (long long k = 0; k < n; k++) {
    static const unsigned long bases[5] = {0UL, 0xFFFF0000UL, 0x7FFFFFF0UL, 0UL - 70000UL, 0xFFFFFFFFUL - 70000UL};
    g_base_ul = bases[rng.below(5)] + rng.below(2000); g_base = (uint32_t) g_base_ul; g_true_ms = 0;
    // 0: no reference clock; 1: a reference clock that is never ready; 2: one that answers every request with a time a
    // little or a lot AHEAD of or BEHIND what the clock reads at that moment - being set through the loop is being set
    int wiring = (int) rng.below(3);
    LogClock ref; ref.ready = (wiring == 2);
    TLoop c(wiring ? &ref : nullptr, nullptr, wiring == 2 ? 120 : 3600, 5, 1000);
    acetime_t T = (acetime_t) rng.range(200000, 1500000000);
    c.setNow(T);
    uint64_t setMs = 0;                          // true time of the last effective setting (T at 0)
    int steps = 3 + (int) rng.below(40);
    uint32_t maxgap = 0;
    for (int i = 0; i < steps; i++) {
      uint32_t gap;
      switch (rng.below(6)) {
        case 0: gap = 1 + rng.below(5); break;
        case 1: gap = 64536 - rng.below(3); break;
        case 2: gap = 1000 * (1 + rng.below(64)); break;
        default: gap = 1 + rng.below(64536); break;
      }
      if (gap > maxgap) maxgap = gap;
      g_true_ms += gap;
      if (wiring == 2) {
        static const int deltas[] = {-100000, -1000, -100, 1, 7, 100, 100000};
        acetime_t reading = (acetime_t) (T + (int64_t) ((g_true_ms - setMs) / 1000));
        ref.response = reading + deltas[rng.below(7)];
      }
      size_t l0 = ref.log.size();
      c.loop();
      CNT.add("c13.loop_polls");
      for (size_t q = l0; q < ref.log.size(); q++) if (ref.log[q].kind == 'r') { T = ref.log[q].v; setMs = g_true_ms; CNT.add("c13.settings_through_loop_sync"); }
    }
    acetime_t r = c.getNow();
    acetime_t want = (acetime_t) (T + (int64_t) ((g_true_ms - setMs) / 1000));
    CNT.add("c13.loop_poller_schedules");
    if (g_true_ms > 65536) CNT.add("c13.loop_poller_schedules_longer_than_16_bits");
    if (r != want) {
      J j; j.num("wiring", wiring).num("T", T).num("elapsed_ms", (long long) g_true_ms).num("polls", steps).num("max_gap_ms", maxgap).num("read", r).num("want", want);
      witness("c13:reading-wrong-with-loop-as-poller", "polled only through SystemClockLoop::loop() (gaps <= 64536 ms) the clock does not read T + floor((m - m0)/1000)", j);
    }
  }
}

struct Cfg { uint16_t S, I, TO; int wiring; int firstValid; };   // wiring 0: ref==backup, 1: distinct, 2: no backup, 3: no reference
// firstValid: 0 = ordinary values; 1 = the first valid response of the run is epoch second 0 (2000-01-01T00:00:00, what an unset
// RTC reports), 2 = it is 1, 3 = it is -1: legal values that sit next to a clock's own initial / sentinel encodings;
// 4 = every new valid response is negative (a date before 2000), 5 = they alternate between the two ends of the 32-bit range
struct Step { uint32_t adv; uint8_t outcome; };   // outcome 0 not ready, 1 valid new, 2 valid same-as-clock, 3 invalid

static std::map<std::string, long long> g_states, g_edges;

static std::string path_str(const Cfg& cfg, const std::vector<Step>& path, size_t upto) {
  char b[128]; snprintf(b, sizeof b, "cfg(S=%u,I=%u,TO=%u,wiring=%d,firstValid=%d):", cfg.S, cfg.I, cfg.TO, cfg.wiring, cfg.firstValid);
  std::string s = b;
  static const char* on[] = {"notready", "valid-new", "valid-same", "invalid"};
  for (size_t i = 0; i < upto && i < path.size(); i++) { snprintf(b, sizeof b, " +%u/%s", path[i].adv, on[path[i].outcome]); s += b; }
  return s;
}

// Executes `path` from a fresh object with all monitors on.  Returns, for the LAST
// step, whether the reference clock's readiness was consulted (used for sound
// pruning: if it was not, all outcomes are observationally identical).
static bool run_path(const Cfg& cfg, const std::vector<Step>& path, unsigned long base, bool record_cov) {
  g_base_ul = base; g_base = (uint32_t) base; g_true_ms = 0;
  LogClock ref, bak;
  Clock* refp = cfg.wiring == 3 ? nullptr : &ref;
  Clock* bakp = cfg.wiring == 0 ? (Clock*) &ref : (cfg.wiring == 1 ? (Clock*) &bak : nullptr);
  if (cfg.wiring == 3) bakp = &bak;
  // every other configuration runs with the optional request-timing statistics attached: they observe, they must not steer
  ace_common::TimingStats stats;
  bool withStats = ((cfg.S + cfg.I + cfg.wiring + cfg.firstValid) % 2) == 0;
  long long responsesRead = 0;
  TLoop sys(refp, bakp, cfg.S, cfg.I, cfg.TO, withStats ? &stats : nullptr);
  TClock shadow(nullptr, nullptr);
  acetime_t lastValid = kInv;
  if (cfg.wiring == 3) {   // no reference: set once by hand so that "keeps time" is observable
    sys.setNow(123456789); shadow.setNow(123456789); lastValid = 123456789;
    ref.log.clear(); bak.log.clear();
  }
  // model of the retry period (statement): I, doubling per failure up to S; S after success
  uint32_t modelWait = cfg.I;     // wait required after the request currently outstanding, if it fails
  uint32_t implWait = cfg.I;      // what the shipped rounding rule would use (upper bound for progress)
  uint64_t lastReq = 0; bool haveReq = false;
  uint64_t lastRespOk = 0;
  int lastOutcomeKind = 0;        // 0 none, 1 success, 2 failure  (of the outstanding request)
  uint64_t failDecidedBy = 0;
  uint32_t maxAdv = 0;
  acetime_t nextVal = 500000000;
  bool consulted_last = false;
  bool usedSpecial = false, specialFlip = false;
  // independent model of "keeps time": value and true time of the last setting, and the longest gap between loop() calls
  // since then. While every gap is one the clock can bridge (<= 64000 ms here) the reading must be exactly
  // value + floor(elapsed / 1000); the shadow clock runs the same getNow() code and cannot show a defect in it.
  int64_t modelSetMs = (cfg.wiring == 3) ? 0 : -1; acetime_t modelSetVal = (cfg.wiring == 3) ? 123456789 : kInv; uint32_t modelMaxGap = 0;
  for (size_t i = 0; i < path.size(); i++) {
    const Step& st = path[i];
    g_true_ms += st.adv;
    if (st.adv > maxAdv) maxAdv = st.adv;
    if (st.adv > modelMaxGap) modelMaxGap = st.adv;
    acetime_t curReading = shadow.getNow();      // what the clock reads now (shadow polled at the same instants)
    ref.ready = st.outcome != 0;
    if (st.outcome == 1) {
      if (cfg.firstValid >= 1 && cfg.firstValid <= 3 && !usedSpecial) { ref.response = cfg.firstValid == 1 ? 0 : (cfg.firstValid == 2 ? 1 : -1); usedSpecial = true; CNT.add("c14.special_first_valid_values"); }
      else if (cfg.firstValid == 4) { nextVal += 7919; ref.response = -nextVal; CNT.add("c14.negative_valid_values"); }          // dates before 2000
      else if (cfg.firstValid == 5) {                                                                                             // both ends of the 32-bit range, alternating
        nextVal += 7919; specialFlip = !specialFlip;
        ref.response = specialFlip ? (acetime_t) (INT32_MAX - 100000000 - (nextVal - 500000000)) : (acetime_t) (INT32_MIN + 100000000 + (nextVal - 500000000));
        CNT.add("c14.extreme_valid_values");
      }
      else { nextVal += 7919; ref.response = nextVal; }
    }
    else if (st.outcome == 2) ref.response = (curReading == kInv) ? (nextVal += 7919) : curReading;
    else if (st.outcome == 3) ref.response = kInv;
    size_t rl0 = ref.log.size(), bl0 = bak.log.size();
    acetime_t syncBefore = sys.getLastSyncTime();
    uint8_t st0 = SystemClockLoopTest_loop::status(sys); uint16_t p0 = SystemClockLoopTest_loop::period(sys);
    sys.loop();
    uint8_t st1 = SystemClockLoopTest_loop::status(sys); uint16_t p1 = SystemClockLoopTest_loop::period(sys);
    CNT.add("c14.loop_calls");
    if (counter_now_ul() < g_base_ul) CNT.add("c14.loop_calls_after_counter_wrap");
    if (record_cov) {
      char b[64]; snprintf(b, sizeof b, "%u/%u", st1, p1); g_states[b]++;
      snprintf(b, sizeof b, "%u/%u->%u/%u", st0, p0, st1, p1); g_edges[b]++;
    }
    // what happened in this call, from the reference clock's own log
    bool sent = false, consulted = false, read = false; acetime_t readv = kInv; size_t refsets = 0;
    for (size_t k = rl0; k < ref.log.size(); k++) {
      char kd = ref.log[k].kind;
      if (kd == 'q') sent = true; else if (kd == 'i') consulted = true; else if (kd == 'r') { read = true; readv = ref.log[k].v; } else if (kd == 's') refsets++;
    }
    consulted_last = consulted;
    size_t baksets = 0; acetime_t baksetv = kInv;
    for (size_t k = bl0; k < bak.log.size(); k++) if (bak.log[k].kind == 's') { baksets++; baksetv = bak.log[k].v; }
    std::string key, what;
    if (cfg.wiring == 3) {
      if (ref.log.size() || bak.log.size()) { key = "c14:noreference-not-quiet"; what = "with no reference clock the loop touched a clock"; }
    }
    if (read && !consulted) { key = "c14:read-without-ready"; what = "readResponse without isResponseReady"; }
    if (read) responsesRead++;
    if (withStats) { CNT.add("c14.loop_calls_with_timing_stats"); if (stats.getCounter() != (uint16_t) responsesRead) { key = "c14:timing-stats-miscount"; what = "the attached TimingStats did not record exactly one sample per response read"; } }
    if (read && readv != kInv) {
      // (a) valid response applied immediately
      bool changes = (curReading != readv);
      shadow.setNow(readv);
      lastValid = readv;
      if (changes || modelSetMs < 0) { modelSetMs = (int64_t) g_true_ms; modelSetVal = readv; modelMaxGap = 0; }
      if (sys.getNow() != readv) { key = "c14:valid-not-applied"; what = "after consuming a valid response the clock does not read the reference value"; }
      else if (sys.getLastSyncTime() != readv) { key = "c14:lastsync-not-updated"; what = "getLastSyncTime != applied value"; }
      if (cfg.wiring == 1) {
        if (changes && !(baksets == 1 && baksetv == readv)) { key = "c14:backup-missed"; what = "a valid response changed the clock but the distinct backup clock did not receive the value"; }
        if (!changes && baksets != 0) CNT.add("c14.info_backup_written_without_change");
      }
      if (cfg.wiring == 0 && refsets != 0) { key = "c14:backup-eq-reference-written"; what = "backup==reference was written back"; }
      if (cfg.wiring == 2 && (baksets || refsets)) { key = "c14:unexpected-set"; what = "a clock was written although there is no backup"; }
      CNT.add("c14.valid_applied");
      lastOutcomeKind = 1; lastRespOk = g_true_ms;
      modelWait = cfg.S; implWait = cfg.S;
    } else {
      // (b) nothing else may change the clock
      if (baksets || refsets) { key = "c14:spurious-backup-write"; what = "backup/reference clock written without a valid response"; }
      if (sys.getLastSyncTime() != syncBefore) { key = "c14:lastsync-changed-without-valid"; what = "last-sync time changed without a valid response"; }
      if (read && readv == kInv) { CNT.add("c14.invalid_consumed"); }
    }
    if (key.empty() && sys.getLastSyncTime() != lastValid) { key = "c14:lastsync-wrong"; what = "getLastSyncTime != last valid response"; }
    // The clock is READ only at the end of a path (every prefix is executed as a path of its own, so every step is
    // still the end of some run) and, on long random walks, at a sparse subset of steps: reading it is itself a
    // keep-alive of the 16-bit millisecond bookkeeping, and a monitor that reads after every loop() would do the
    // job loop() is supposed to do (seeded change C14g).
    bool observe = (i + 1 == path.size()) || (path.size() > 12 && ((i * 2654435761u + path.size()) % 7 == 0));
    if (observe) CNT.add("c14.clock_reads");
    if (key.empty() && observe && sys.getNow() != shadow.getNow()) { key = "c14:time-corrupted"; what = "clock trajectory differs from one that received only the valid responses"; }
    if (key.empty() && observe && modelSetMs >= 0 && modelMaxGap <= 64000) {
      CNT.add("c14.exact_time_checks");
      acetime_t want = (acetime_t) (modelSetVal + ((int64_t) g_true_ms - modelSetMs) / 1000);
      if (sys.getNow() != want) { key = "c14:time-not-kept"; what = "between settings, with every gap between loop() calls one the clock can bridge, the reading is not value + floor(elapsed/1000)"; }
    }
    if (key.empty() && sys.isInit() != shadow.isInit()) { key = "c14:isInit-wrong"; what = "isInit differs from shadow"; }
    // failure detection for the model: outstanding request failed if an invalid response was
    // consumed, or readiness was consulted negative at/after the timeout
    if (haveReq && lastOutcomeKind == 0) {
      bool failed = (read && readv == kInv) || (consulted && !read && (g_true_ms - lastReq) >= cfg.TO);
      if (failed) { lastOutcomeKind = 2; failDecidedBy = g_true_ms; CNT.add("c14.failures"); }
    }
    if (sent) {
      CNT.add("c14.requests");
      if (haveReq) {
        uint64_t gap = g_true_ms - lastReq;
        // (c) lower bound
        uint64_t need = (uint64_t) modelWait * 1000;
        if (lastOutcomeKind == 0 && key.empty()) { key = "c14:request-while-outstanding"; what = "a new request was sent while the previous one was neither answered nor timed out"; }
        else if (gap < need && key.empty()) { key = "c14:retry-too-early"; what = "consecutive requests closer than the current retry period"; }
        if (lastOutcomeKind == 1 && (g_true_ms - lastRespOk) < (uint64_t) cfg.S * 1000 && key.empty()) { key = "c14:resync-too-early"; what = "request sent less than the sync period after a successful sync"; }
      }
      // new outstanding request: the wait that applies if THIS one fails
      if (haveReq && lastOutcomeKind == 2) {
        uint32_t m = modelWait * 2; modelWait = m > cfg.S ? cfg.S : m;
        implWait = (implWait >= (uint32_t) (cfg.S / 2)) ? cfg.S : implWait * 2;
      }
      if (!haveReq) { modelWait = cfg.I; implWait = cfg.I; }
      else if (lastOutcomeKind == 1) { modelWait = cfg.S; implWait = cfg.S; }
      haveReq = true; lastReq = g_true_ms; lastOutcomeKind = 0;
    }
    // (d) bounded progress
    if (cfg.wiring != 3 && key.empty()) {
      uint64_t bound;
      uint64_t D = maxAdv;
      if (!haveReq) bound = 0 + 1 * D;                                   // first loop() sends at once
      else if (lastOutcomeKind == 1) bound = (lastRespOk - lastReq) + (uint64_t) cfg.S * 1000 + 3 * D;
      else {
        uint64_t w = (uint64_t) (implWait > modelWait ? implWait : modelWait) * 1000;
        uint64_t t = (uint64_t) cfg.TO + D;
        bound = (w > t ? w : t) + 3 * D;
      }
      uint64_t since = haveReq ? g_true_ms - lastReq : g_true_ms;
      if (since > bound && !sent) { key = "c14:no-progress"; what = "no new request within the bounded time"; }
    }
    if (!key.empty()) {
      char bb[40]; snprintf(bb, sizeof bb, "%lu", g_base_ul);
      J j; j.str("path", path_str(cfg, path, i + 1)).str("counter_base", bb).num("step", (long long) i).num("fsm_state", st1).num("period", p1).num("now_ms", (long long) g_true_ms).num("clock", sys.getNow()).num("shadow", shadow.getNow());
      witness(key, what, j);
      return consulted_last;
    }
  }
  CNT.add("c14.paths");
  return consulted_last;
}

static std::vector<uint32_t> advances_for(const Cfg& c) {
  // 64000: a gap in the upper half of what the 16-bit millisecond bookkeeping allows (32768..64536 ms)
  std::vector<uint32_t> a = {1, 999, (uint32_t) c.TO + 1, (uint32_t) c.I * 1000, (uint32_t) c.I * 2000 + 1, (uint32_t) c.S * 1000, 64000};
  if (c.TO > 1) a.push_back(c.TO - 1);
  // dedupe, drop zeros
  std::vector<uint32_t> o;
  for (uint32_t x : a) { if (x == 0) x = 1; bool dup = false; for (uint32_t y : o) if (y == x) dup = true; if (!dup) o.push_back(x); }
  return o;
}

static long long g_nodes = 0;
// counter value at true time 0: far from any wrap, near the 2^31 mark, or placed so that the counter wraps
// shortly after the first request / during the first retry wait / after the first sync period
static unsigned long base_for(const Cfg& cfg, uint32_t firstAdv, int cls) {
  switch (cls % 5) {
    case 0: return 5000UL;
    case 1: return 0x7FFF0000UL;
    case 2: return 0UL - (unsigned long) firstAdv - (unsigned long) (cfg.TO / 2) - 1UL;
    case 3: return 0UL - (unsigned long) firstAdv - (unsigned long) cfg.I * 1000UL + 17UL;
    default: return 0UL - (unsigned long) firstAdv - (unsigned long) cfg.S * 1000UL - 3UL;
  }
}

static void dfs(const Cfg& cfg, std::vector<Step>& path, int depth, const std::vector<uint32_t>& advs, unsigned long base) {
  if ((int) path.size() == depth) return;
  for (uint32_t adv : advs) {
    for (uint8_t o = 0; o < 4; o++) {
      path.push_back({adv, o});
      long long w0 = g_witnesses;
      bool consulted = run_path(cfg, path, base, true);
      g_nodes++;
      if (g_witnesses == w0) dfs(cfg, path, depth, advs, base);
      path.pop_back();
      if (!consulted) break;     // readiness never consulted in this step: outcomes 1..3 are identical runs
    }
  }
}

static const Cfg kCfgs[] = {
  {3600, 5, 1000, 0}, {3600, 5, 1000, 1}, {3600, 5, 1000, 2}, {3600, 5, 1000, 3},
  {60, 5, 1000, 0}, {60, 5, 1000, 1}, {60, 5, 1000, 2},
  {16, 2, 500, 0}, {16, 2, 500, 1}, {16, 2, 500, 2},
  {5, 5, 100, 1}, {5, 5, 100, 2}, {5, 1, 100, 1},
  {2, 1, 0, 1}, {2, 1, 0, 0}, {7, 1, 250, 1}, {61, 3, 2000, 1}, {65, 1, 1000, 1},
  {16, 2, 500, 1, 1}, {5, 1, 100, 1, 2}, {5, 5, 100, 2, 3}, {60, 5, 1000, 0, 1},
  {16, 2, 500, 1, 4}, {5, 1, 100, 1, 5}, {60, 5, 1000, 1, 3}, {5, 5, 100, 1, 4},
};
static const int kNumCfgs = sizeof(kCfgs) / sizeof(kCfgs[0]);

static void c14_enum(int shard, int nshards, int depth) {
  // work items: (config, first advance) pairs spread over shards
  int item = 0;
  for (int ci = 0; ci < kNumCfgs; ci++) {
    const Cfg& cfg = kCfgs[ci];
    std::vector<uint32_t> advs = advances_for(cfg);
    for (size_t fa = 0; fa < advs.size(); fa++, item++) {
      if (item % nshards != shard) continue;
      unsigned long base = base_for(cfg, advs[fa], item);
      std::vector<Step> path;
      for (uint8_t o = 0; o < 4; o++) {
        path.push_back({advs[fa], o});
        long long w0 = g_witnesses;
        bool consulted = run_path(cfg, path, base, true);
        g_nodes++;
        if (g_witnesses == w0) dfs(cfg, path, depth, advs, base);
        path.pop_back();
        if (!consulted) break;
      }
      if (fa == 0) { J j; j.str("kind", "enumerated-prefix").str("path", path_str(cfg, {{advs[fa], 0}, {advs.back(), 0}, {1, 3}}, 3)); sample(j, 3); }
    }
  }
  CNT.add("c14.nodes", g_nodes);
}

static void c14_random(int shard, long long seed, long long walks, int len) {
  Rng rng(seed * 7919 + shard);
  for (long long w = 0; w < walks; w++) {
    Cfg cfg = kCfgs[rng.below(kNumCfgs)];
    if (rng.below(4) == 0) { cfg.S = (uint16_t) (2 + rng.below(120)); cfg.I = (uint16_t) (1 + rng.below(cfg.S)); cfg.TO = (uint16_t) rng.below(3000); cfg.wiring = rng.below(4); }
    std::vector<uint32_t> advs = advances_for(cfg);
    std::vector<Step> path;
    int style = rng.below(4);   // 0 mixed, 1 reference never ready, 2 always invalid, 3 mostly valid
    for (int i = 0; i < len; i++) {
      uint32_t adv = rng.below(3) ? advs[rng.below((uint32_t) advs.size())] : 1 + rng.below(70000);
      uint8_t o;
      if (style == 1) o = 0; else if (style == 2) o = rng.below(3) ? 3 : 0; else if (style == 3) o = rng.below(5) ? (1 + rng.below(2)) : rng.below(4); else o = rng.below(4);
      path.push_back({adv, o});
    }
    run_path(cfg, path, rng.below(3) == 0 ? (0UL - 1UL - (unsigned long) rng.below(200000)) : base_for(cfg, path[0].adv, (int) rng.below(5)), true);
    CNT.add("c14.random_walks");
    if (w < 2) { J j; j.str("kind", "random-walk").str("path", path_str(cfg, path, 12)); sample(j, 5); }
  }
}

// --------------------------------------------------------------------------- C09 (clock operations under any call history)
// SystemClock / SystemClockLoop driven from arbitrary counter values (not only a counter that starts at 0) with hostile
// histories: any order of setNow / getNow / loop / forceSync / setup, any advance of time between them, reference and backup
// clocks that answer anything. Watched by the step bound above and by ASan/UBSan. Values stay far from the int32 ends (the
// arithmetic there is C13's and C05's subject).
static void c09_clock(int shard, long long seed, long long rounds) {
  g_hang_key = "c09:clock-operation-does-not-terminate";
  Rng rng(seed * 31 + shard + 11);
  static const unsigned long bases[] = {0UL, 1UL, 30000UL, 65535UL, 65536UL, 66536UL, 70000UL, 3600000UL, 2592000000UL, 0x7FFFFFF0UL, 0xFFFF0000UL, 0xFFFFFFFFUL - 70000UL, 0UL - 70000UL, 0UL - 1UL};
  static const uint32_t advs[] = {0, 1, 999, 1000, 1001, 1500, 32767, 32768, 60000, 64536, 65535, 65536, 65537, 70000, 131072, 3600000, 86400000, 0x7fffffffu, 0xffffffffu};
  for (long long r = 0; r < rounds; r++) {
    g_base_ul = bases[rng.below(sizeof(bases) / sizeof(bases[0]))] + rng.below(3); g_base = (uint32_t) g_base_ul; g_true_ms = 0;
    LogClock ref, bak;
    int wiring = (int) rng.below(4);
    Clock* rp = wiring == 3 ? nullptr : &ref; Clock* bp = wiring == 0 ? &ref : (wiring == 2 ? nullptr : &bak);
    TLoop loop(rp, bp, (uint16_t) (1 + rng.below(3600)), (uint16_t) (1 + rng.below(10)), (uint16_t) rng.below(3000));
    TClock plain(rp, bp);
    int ops = 5 + (int) rng.below(40);
    for (int o = 0; o < ops; o++) {
      g_true_ms += (rng.below(3) == 0) ? advs[rng.below(sizeof(advs) / sizeof(advs[0]))] : rng.below(70000);
      acetime_t val = rng.below(8) == 0 ? kInv : (acetime_t) rng.range(-1000000000LL, 1000000000LL);
      ref.now = rng.below(6) == 0 ? kInv : (acetime_t) rng.range(-1000000000LL, 1000000000LL); ref.response = ref.now; ref.ready = rng.below(2);
      bak.now = rng.below(6) == 0 ? kInv : (acetime_t) rng.range(-1000000000LL, 1000000000LL);
      SystemClock* c = rng.below(2) ? (SystemClock*) &loop : (SystemClock*) &plain;
      switch (rng.below(7)) {
        case 0: c->setNow(val); CNT.add("c09.clock.setNow"); break;
        case 1: case 2: { acetime_t v = c->getNow(); (void) v; CNT.add("c09.clock.getNow"); break; }
        case 3: case 4: loop.loop(); CNT.add("c09.clock.loop"); break;
        case 5: c->forceSync(); CNT.add("c09.clock.forceSync"); break;
        case 6: c->setup(); CNT.add("c09.clock.setup"); break;
      }
      (void) c->isInit(); (void) c->getLastSyncTime();
      if (g_base_ul + (unsigned long) g_true_ms >= 65536UL) CNT.add("c09.clock.ops_with_counter_beyond_16_bits");
    }
    CNT.add("c09.clock.histories");
  }
  CNT.add("c09.clock.max_counter_reads_in_one_operation", 0);
  { J j; j.str("kind", "clock-histories").num("max_counter_reads_while_time_stood_still", (long long) g_max_reads_at_one_ms); sample(j); }
}

static void emit_cov() {
  std::vector<std::string> s, e;
  for (auto& kv : g_states) s.push_back(kv.first);
  for (auto& kv : g_edges) e.push_back(kv.first);
  emit_set("c14.states", s); emit_set("c14.edges", e);
}

int main(int argc, char** argv) {
  Args a(argc, argv);
  std::string mode = a.get("mode");
  if (mode.substr(0, 3) == "c14") g_hang_key = "c14:operation-does-not-terminate";
  if (mode == "c13pairs") c13_pairs(a.shard(), a.nshards(), a.has("allgaps"));
  else if (mode == "c13sched") { c13_schedules(a.shard(), a.num("seed", 0), a.num("steps", 100000)); c13_loop_pollers(a.shard(), a.num("seed", 0), a.num("steps", 100000) / 200 + 50); }
  else if (mode == "c14enum") { c14_enum(a.shard(), a.nshards(), (int) a.num("depth", 5)); emit_cov(); }
  else if (mode == "c14random") { c14_random(a.shard(), a.num("seed", 0), a.num("walks", 100), (int) a.num("len", 2000)); emit_cov(); }
  else if (mode == "c09clock") c09_clock(a.shard(), a.num("seed", 0), a.num("rounds", 20000));
  else { fprintf(stderr, "unknown mode\n"); return 3; }
  CNT.flush();
  return 0;
}
