// Common helpers for the native drivers (DESIGN.md 2.4).
// Output protocol: one JSON object per stdout line
//   {"t":"c","v":{"name":123,...}}   counters (summed over shards)
//   {"t":"m","v":{"name":123}}       maxima
//   {"t":"set","v":{"name":[...]}}   set union
//   {"t":"w","v":{"key":..,"what":..,...}}  witness of a violation
//   {"t":"s","v":{...}}              sample of an explored case
//   {"t":"j","v":{"op":..}} / {"t":"jr"}    journal: call opened / returned
#ifndef VERIF_VCOMMON_H
#define VERIF_VCOMMON_H

#include <stdint.h>
#include <stdio.h>
#include <stdlib.h>
#include <string.h>
#include <string>
#include <map>
#include <vector>
#include <Arduino.h>

namespace verif {

// ---------------------------------------------------------------- RNG
struct Rng {
  uint64_t s;
  explicit Rng(uint64_t seed): s(seed * 0x9E3779B97F4A7C15ULL + 0x1234567ULL) {}
  uint64_t next() {
    uint64_t z = (s += 0x9E3779B97F4A7C15ULL);
    z = (z ^ (z >> 30)) * 0xBF58476D1CE4E5B9ULL;
    z = (z ^ (z >> 27)) * 0x94D049BB133111EBULL;
    return z ^ (z >> 31);
  }
  uint32_t below(uint32_t n) { return n ? (uint32_t) (next() % n) : 0; }
  int64_t range(int64_t lo, int64_t hi) {  // inclusive
    return lo + (int64_t) (next() % (uint64_t) (hi - lo + 1));
  }
};

// ---------------------------------------------------------------- in-memory Print
class StrPrint: public Print {
  public:
    size_t write(uint8_t c) override { buf.push_back((char) c); return 1; }
    using Print::write;
    std::string buf;
    void clear() { buf.clear(); }
    const char* c_str() const { return buf.c_str(); }
};

// ---------------------------------------------------------------- JSON helpers
inline std::string jesc(const std::string& s) {
  std::string o;
  for (unsigned char c : s) {
    if (c == '"' || c == '\\') { o.push_back('\\'); o.push_back((char) c); }
    else if (c < 0x20 || c >= 0x7f) { char b[8]; snprintf(b, sizeof b, "\\u%04x", c); o += b; }
    else o.push_back((char) c);
  }
  return o;
}

struct J {  // tiny JSON object builder
  std::string s;
  bool first = true;
  J() { s = "{"; }
  J& sep() { if (!first) s += ","; first = false; return *this; }
  J& str(const char* k, const std::string& v) { sep(); s += "\""; s += k; s += "\":\""; s += jesc(v); s += "\""; return *this; }
  J& num(const char* k, long long v) { sep(); char b[64]; snprintf(b, sizeof b, "\"%s\":%lld", k, v); s += b; return *this; }
  J& raw(const char* k, const std::string& v) { sep(); s += "\""; s += k; s += "\":"; s += v; return *this; }
  std::string done() const { return s + "}"; }
};

struct Counters {
  std::map<std::string, long long> c;
  std::map<std::string, long long> m;
  void add(const char* k, long long v = 1) { c[k] += v; }
  void maxi(const char* k, long long v) { auto it = m.find(k); if (it == m.end() || it->second < v) m[k] = v; }
  void flush() {
    if (!c.empty()) {
      std::string s = "{\"t\":\"c\",\"v\":{"; bool f = true;
      for (auto& kv : c) { if (!f) s += ","; f = false; char b[160]; snprintf(b, sizeof b, "\"%s\":%lld", kv.first.c_str(), kv.second); s += b; }
      s += "}}"; puts(s.c_str());
    }
    if (!m.empty()) {
      std::string s = "{\"t\":\"m\",\"v\":{"; bool f = true;
      for (auto& kv : m) { if (!f) s += ","; f = false; char b[160]; snprintf(b, sizeof b, "\"%s\":%lld", kv.first.c_str(), kv.second); s += b; }
      s += "}}"; puts(s.c_str());
    }
    fflush(stdout);
    c.clear(); m.clear();
  }
};

static Counters CNT;
static long long g_witnesses = 0;
static long long g_witness_cap = 600;   // distinct keys detailed per process; all are *counted*
static std::map<std::string, long long> g_witness_by_key;
static long long g_samples = 0;

inline void witness(const std::string& key, const std::string& what, J& j) {
  g_witnesses++;
  CNT.add("witnesses");
  long long& n = g_witness_by_key[key];
  n++;
  // detail is capped PER KEY (first 12 of each), never by the total: a frequent known mechanism must not use up the
  // budget of a different violation that shows up later in the same process
  if (n > 12 || (long long) g_witness_by_key.size() > g_witness_cap) return;
  j.str("key", key).str("what", what);
  printf("{\"t\":\"w\",\"v\":%s}\n", j.done().c_str());
  fflush(stdout);
}

inline void sample(J& j, long long cap = 6) {
  if (g_samples >= cap) return;
  g_samples++;
  printf("{\"t\":\"s\",\"v\":%s}\n", j.done().c_str());
}

inline void emit_set(const char* name, const std::vector<std::string>& v) {
  std::string s = "{\"t\":\"set\",\"v\":{\""; s += name; s += "\":[";
  for (size_t i = 0; i < v.size(); i++) { if (i) s += ","; s += "\"" + jesc(v[i]) + "\""; }
  s += "]}}"; puts(s.c_str());
}

inline void journal_open(const std::string& op) {
  printf("{\"t\":\"j\",\"v\":{\"op\":\"%s\"}}\n", jesc(op).c_str());
  fflush(stdout);
}
inline void journal_close() { puts("{\"t\":\"jr\"}"); }

// ---------------------------------------------------------------- args
struct Args {
  std::map<std::string, std::string> kv;
  Args(int argc, char** argv) {
    for (int i = 1; i < argc; i++) {
      std::string a = argv[i];
      if (a.rfind("--", 0) == 0) {
        std::string k = a.substr(2), v = "1";
        size_t eq = k.find('=');
        if (eq != std::string::npos) { v = k.substr(eq + 1); k = k.substr(0, eq); }
        else if (i + 1 < argc && strncmp(argv[i + 1], "--", 2) != 0) { v = argv[++i]; }
        kv[k] = v;
      }
    }
  }
  std::string get(const char* k, const char* d = "") const { auto it = kv.find(k); return it == kv.end() ? d : it->second; }
  long long num(const char* k, long long d = 0) const { auto it = kv.find(k); return it == kv.end() ? d : atoll(it->second.c_str()); }
  bool has(const char* k) const { return kv.count(k) > 0; }
  int shard() const { std::string s = get("shard", "0/1"); return atoi(s.c_str()); }
  int nshards() const { std::string s = get("shard", "0/1"); size_t p = s.find('/'); return p == std::string::npos ? 1 : atoi(s.c_str() + p + 1); }
};

// ---------------------------------------------------------------- independent civil calendar (oracle)
// Howard Hinnant's days_from_civil / civil_from_days on int64, epoch 2000-01-01.
inline int64_t days_from_civil(int64_t y, unsigned m, unsigned d) {
  y -= m <= 2;
  const int64_t era = (y >= 0 ? y : y - 399) / 400;
  const unsigned yoe = (unsigned) (y - era * 400);
  const unsigned doy = (153 * (m + (m > 2 ? -3 : 9)) + 2) / 5 + d - 1;
  const unsigned doe = yoe * 365 + yoe / 4 - yoe / 100 + doy;
  return era * 146097 + (int64_t) doe - 719468 - 10957;   // days since 2000-01-01
}
inline void civil_from_days(int64_t z, int64_t& y, unsigned& m, unsigned& d) {
  z += 719468 + 10957;
  const int64_t era = (z >= 0 ? z : z - 146096) / 146097;
  const unsigned doe = (unsigned) (z - era * 146097);
  const unsigned yoe = (doe - doe / 1460 + doe / 36524 - doe / 146096) / 365;
  y = (int64_t) yoe + era * 400;
  const unsigned doy = doe - (365 * yoe + yoe / 4 - yoe / 100);
  const unsigned mp = (5 * doy + 2) / 153;
  d = doy - (153 * mp + 2) / 5 + 1;
  m = mp + (mp < 10 ? 3 : -9);
  y += (m <= 2);
}
inline bool oracle_leap(int64_t y) { return (y % 4 == 0 && y % 100 != 0) || y % 400 == 0; }
inline unsigned oracle_dim(int64_t y, unsigned m) {
  static const unsigned t[12] = {31, 28, 31, 30, 31, 30, 31, 31, 30, 31, 30, 31};
  return (m == 2 && oracle_leap(y)) ? 29 : t[m - 1];
}
// ISO weekday 1=Monday..7=Sunday; 2000-01-01 was a Saturday (6).
inline unsigned oracle_dow(int64_t epochDays) {
  int64_t r = (epochDays + 5) % 7;
  if (r < 0) r += 7;
  return (unsigned) r + 1;
}
struct Civil { int64_t y; unsigned mo, d, h, mi, s; };
inline Civil civil_from_seconds(int64_t t) {
  int64_t days = t >= 0 ? t / 86400 : -((-t + 86399) / 86400);
  int64_t rem = t - days * 86400;
  Civil c; civil_from_days(days, c.y, c.mo, c.d);
  c.h = (unsigned) (rem / 3600); c.mi = (unsigned) (rem % 3600 / 60); c.s = (unsigned) (rem % 60);
  return c;
}

}  // namespace verif
#endif
