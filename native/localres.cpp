// localres driver: local date-time -> resolved instant (C07), instant<->date-time conversions (C05),
// and a query-file mode used by the Python differential check (C04).
#include "vcommon.h"
#include <AceTime.h>
#include <algorithm>
#include <set>

using namespace ace_time;
using namespace verif;

#ifdef VERIF_GEN_REGISTRY_H
#include VERIF_GEN_REGISTRY_H    // tables generated afresh by the real compiler, in their own namespace
#endif
#ifndef VERIF_BASIC_NS
#define VERIF_BASIC_NS zonedb
#endif
#ifndef VERIF_EXT_NS
#define VERIF_EXT_NS zonedbx
#endif

static std::string PROP = "c07";
static int64_t LO = 0, HI = 1577923200LL;   // 2000-01-01 .. 2050-01-01 (AceTime epoch)

struct Tr { int64_t T; int o1, o2; };       // change of total offset (seconds) at instant T

static inline int offAt(const TimeZone& tz, int64_t t) { return tz.getUtcOffset((acetime_t) t).toMinutes() * 60; }

// The zone's real instant -> offset function: zic's reading of the recorded Zone/Rule lines (the oracle file C01/C02 use),
// when one is given with --oracle-basic / --oracle-ext; otherwise the library's own function on a private processor.
struct OSeg { int64_t start; int32_t utoff; int32_t isdst; char abbr[8]; };
struct OZone { char name[64]; uint32_t first; uint32_t count; };
struct Oracle {
  std::vector<OZone> zones; std::vector<OSeg> segs;
  bool load(const std::string& path) {
    FILE* f = fopen(path.c_str(), "rb"); if (!f) return false;
    char magic[4]; uint32_t n;
    if (fread(magic, 1, 4, f) != 4 || memcmp(magic, "VZIC", 4) || fread(&n, 4, 1, f) != 1) { fclose(f); return false; }
    zones.resize(n); if (n && fread(zones.data(), sizeof(OZone), n, f) != n) { fclose(f); return false; }
    OSeg s; while (fread(&s, sizeof s, 1, f) == 1) segs.push_back(s);
    fclose(f); return true;
  }
  const OZone* find(const char* name) const { for (auto& z : zones) if (!strcmp(z.name, name)) return &z; return nullptr; }
};
static Oracle ORA_B, ORA_X;
struct Model {
  const TimeZone* priv; const Oracle* ora; const OZone* oz;
  int at(int64_t t) const {
    if (!oz) return offAt(*priv, t);
    const OSeg* s = &ora->segs[oz->first]; uint32_t lo = 0, hi = oz->count;     // last segment with start <= t
    while (hi - lo > 1) { uint32_t m = lo + (hi - lo) / 2; if (s[m].start <= t) lo = m; else hi = m; }
    return s[lo].utoff;
  }
};

static std::vector<Tr> find_transitions(const Model& tz) {
  std::vector<Tr> out;
  const int64_t step = 1800;
  int prev = tz.at(LO); int64_t prevT = LO;
  for (int64_t t = LO + step; t < HI; t += step) {
    int cur = tz.at(t);
    if (cur != prev) {
      int64_t a = prevT, b = t;
      while (b - a > 1) { int64_t m = a + (b - a) / 2; if (tz.at(m) == prev) a = m; else b = m; }
      out.push_back({b, prev, cur});
    }
    prev = cur; prevT = t;
  }
  return out;
}

static std::string civstr(const Civil& c) { char b[48]; snprintf(b, sizeof b, "%04lld-%02u-%02uT%02u:%02u:%02u", (long long) c.y, c.mo, c.d, c.h, c.mi, c.s); return b; }

// One local wall time L (seconds since 2000-01-01T00:00:00 *local*).
static void check_local(const char* zone, bool extended, const TimeZone& tz, const Model& priv, const std::vector<Tr>& trs, int64_t L, const char* klass) {
  Civil c = civil_from_seconds(L);
  ZonedDateTime z = ZonedDateTime::forComponents((int16_t) c.y, (uint8_t) c.mo, (uint8_t) c.d, (uint8_t) c.h, (uint8_t) c.mi, (uint8_t) c.s, tz);
  CNT.add("local.cases");
  // candidate offsets: everything in force within +-2 days of L (UTC-wise)
  std::set<int> offs;
  offs.insert(priv.at(L - 16 * 3600)); offs.insert(priv.at(L + 16 * 3600)); offs.insert(priv.at(L));
  const Tr* nearest = nullptr; int64_t best = INT64_MAX;
  for (const Tr& t : trs) {
    int64_t d = t.T > L ? t.T - L : L - t.T;
    if (d < 3 * 86400) { offs.insert(t.o1); offs.insert(t.o2); }
  }
  std::vector<int64_t> cands;
  for (int o : offs) { int64_t u = L - o; if (u >= LO - 86400 && u < HI + 86400 && u > INT32_MIN && u <= INT32_MAX && priv.at(u) == o) cands.push_back(u); }
  std::sort(cands.begin(), cands.end()); cands.erase(std::unique(cands.begin(), cands.end()), cands.end());
  std::string key, what;
  int64_t r = z.toEpochSeconds();
  int64_t expect = INT64_MIN;
  if (z.isError()) { key = PROP + ":error-result"; what = "forComponents inside the supported years returned an error value"; }
  else {
    // normalised?
    ZonedDateTime n = ZonedDateTime::forEpochSeconds((acetime_t) r, tz);
    if (n.localDateTime() != z.localDateTime() || n.timeOffset() != z.timeOffset()) { key = PROP + ":not-normalised"; what = "rebuilding the result from its own epoch seconds gives different fields/offset"; }
    else if (z.timeOffset().toMinutes() * 60 != priv.at(r)) { key = PROP + ":offset-not-in-force"; what = "result carries an offset that is not in force at its instant"; }
    else if (cands.size() == 1) {
      CNT.add("local.unique");
      expect = cands[0];
      if (r != cands[0]) { key = PROP + ":unique-time-shifted"; what = "a wall time that occurs exactly once was resolved to a different instant"; }
      else if (z.year() != c.y || z.month() != c.mo || z.day() != c.d || z.hour() != c.h || z.minute() != c.mi || z.second() != c.s) { key = PROP + ":unique-fields-changed"; what = "fields of a unique wall time were changed"; }
    } else if (cands.size() >= 2) {
      CNT.add("local.overlap");
      expect = cands.back();
      if (std::find(cands.begin(), cands.end(), r) == cands.end()) { key = PROP + ":overlap-not-an-occurrence"; what = "overlap resolved to an instant that is not one of the real occurrences"; }
      else if (extended && r != cands.back()) { key = PROP + ":overlap-not-later"; what = "extended processor did not return the later occurrence of an overlapped wall time"; }
      else if (z.year() != c.y || z.month() != c.mo || z.day() != c.d || z.hour() != c.h || z.minute() != c.mi || z.second() != c.s) { key = PROP + ":overlap-fields-changed"; what = "fields of an overlapped wall time were changed"; }
    } else {
      // gap: instant obtained with the offset in force before the gap
      const Tr* g = nullptr;
      for (const Tr& t : trs) if (t.o2 > t.o1 && L >= t.T + t.o1 && L < t.T + t.o2) { int64_t d = t.T > L ? t.T - L : L - t.T; if (d < best) { best = d; g = &t; } }
      nearest = g;
      if (!g) { CNT.add("local.gap_unclassified"); }
      else {
        CNT.add("local.gap");
        expect = L - g->o1;
        if (r != expect) { key = PROP + ":gap-not-forward"; what = "wall time in a gap was not moved forward by the gap length (offset before the gap)"; }
      }
    }
  }
  if (!key.empty()) {
    J j; j.str("zone", zone).str("class", klass).str("local", civstr(c)).num("got_epoch", r).num("expected_epoch", expect == INT64_MIN ? 0 : expect)
        .num("got_offset_min", z.timeOffset().toMinutes()).num("occurrences", (long long) cands.size());
    if (!z.isError()) { Civil rc = civil_from_seconds(r + (int64_t) z.timeOffset().toMinutes() * 60); j.str("got_local", civstr(rc)); }
    witness(key, what, j);
  }
  (void) nearest;
}

// "every zone" includes manual ones: no gaps, no overlaps, so every wall time occurs exactly once and must come back
// unchanged with the offset in force, standard + DST
static void c07_manual(Rng& rng) {
  std::vector<Tr> none;
  for (int std = -960; std <= 960; std += 45) for (int dst : {-60, 0, 30, 60, 120}) {
    TimeZone tz = TimeZone::forTimeOffset(TimeOffset::forMinutes((int16_t) std), TimeOffset::forMinutes((int16_t) dst));
    char nm[48]; snprintf(nm, sizeof nm, "manual(std=%d,dst=%d)", std, dst);
    CNT.add("local.manual_zones");
    int64_t fixedL[] = {LO + 2 * 86400, LO + 2 * 86400 + 1, (HI - 2 * 86400) - 1, 605000000LL - (605000000LL % 60), 605000000LL + 59};
    Model self = {&tz, nullptr, nullptr};
    for (int64_t L : fixedL) check_local(nm, true, tz, self, none, L, "manual-zone");
    for (int k = 0; k < 40; k++) { int64_t L = LO + 2 * 86400 + (int64_t) (rng.next() % (uint64_t) (HI - LO - 4 * 86400)); check_local(nm, true, tz, self, none, L, "manual-zone"); }
  }
}

template <typename ZI, typename PROC>
static void c07_zone(const ZI* zi, bool extended, long long nrandom, Rng& rng) {
  PROC* a = new PROC(); PROC* b = new PROC();
  TimeZone tz = TimeZone::forZoneInfo(zi, a);
  TimeZone privTz = TimeZone::forZoneInfo(zi, b);
  const Oracle* ora = extended ? &ORA_X : &ORA_B;
  const OZone* oz = ora->zones.empty() ? nullptr : ora->find(zi->name);
  if (!ora->zones.empty() && !oz) { J j; j.str("zone", zi->name); witness(PROP + ":zone-missing-from-oracle", "zone has no oracle entry", j); delete a; delete b; return; }
  if (oz) CNT.add("local.zones_with_zic_model");
  Model priv = {&privTz, ora, oz};
  std::vector<Tr> trs = find_transitions(priv);
  CNT.add("local.zones"); CNT.add("local.transitions", (long long) trs.size());
  for (const Tr& t : trs) {
    int omin = std::min(t.o1, t.o2), omax = std::max(t.o1, t.o2);
    int64_t from = t.T + omin - 200 * 60, to = t.T + omax + 200 * 60;
    from -= ((from % 60) + 60) % 60;
    for (int64_t L = from; L <= to; L += 60) {
      if (L - omax < LO + 86400 || L - omin >= HI - 86400) continue;
      check_local(zi->name, extended, tz, priv, trs, L, "transition-window");
    }
    // seconds 0/59 and +-1 s at the edges of the gap/overlap
    for (int64_t e : {t.T + t.o1, t.T + t.o2}) for (int d : {-61, -60, -1, 0, 1, 59, 60}) {
      int64_t L = e + d; if (L - omax < LO + 86400 || L - omin >= HI - 86400) continue;
      check_local(zi->name, extended, tz, priv, trs, L, "edge");
    }
  }
  for (long long i = 0; i < nrandom; i++) {
    int64_t L = rng.range(LO + 2 * 86400, HI - 2 * 86400);
    check_local(zi->name, extended, tz, priv, trs, L, "random");
  }
  // the first and the last two days of the supported years, as the zone's own wall clock shows them (east of UTC the
  // instants of local 2000-01-01 lie in 1999 UTC, west of UTC those of local 2049-12-31 lie in 2050 UTC)
  for (int64_t L = LO; L < LO + 2 * 86400; L += 1800 + 59) check_local(zi->name, extended, tz, priv, trs, L, "first-days");
  for (int64_t L = HI - 2 * 86400; L < HI; L += 1800 + 59) check_local(zi->name, extended, tz, priv, trs, L, "last-days");
  CNT.add("local.range_edge_days_zones");
  if (!trs.empty() && CNT.c["local.zones"] <= 2) { J j; j.str("zone", zi->name).num("transitions", (long long) trs.size()).num("first_T", trs[0].T).num("o1", trs[0].o1).num("o2", trs[0].o2); sample(j); }
  delete a; delete b;
}

// --------------------------------------------------------------------------- C05
static void c05_instant(const char* what, const TimeZone& tz, int64_t t, const std::vector<TimeZone>* others) {
  ZonedDateTime z = ZonedDateTime::forEpochSeconds((acetime_t) t, tz);
  CNT.add("conv.instants");
  std::string key, w;
  if (z.isError()) { key = "c05:error-inside-range"; w = "zoned date-time of a valid instant is an error"; }
  else if (z.toEpochSeconds() != (acetime_t) t) { key = "c05:roundtrip"; w = "forEpochSeconds(t).toEpochSeconds() != t"; }
  else {
    int64_t u = t + 946684800LL;
    if (u <= INT32_MAX && u >= INT32_MIN + 1) {
      CNT.add("conv.unix_checked");
      if ((int64_t) z.toUnixSeconds() != u) { key = "c05:unix-delta"; w = "toUnixSeconds - toEpochSeconds != 946684800"; }
      else {
        ZonedDateTime zu = ZonedDateTime::forUnixSeconds((acetime_t) u, tz);
        if (zu != z) { key = "c05:forUnixSeconds"; w = "forUnixSeconds(t + 946684800) != forEpochSeconds(t)"; }
      }
    }
    if (key.empty() && z.toEpochDays() != (acetime_t) (t >= 0 ? t / 86400 : -((-t + 86399) / 86400))) { key = "c05:epoch-days"; w = "toEpochDays != floor(epochSeconds / 86400)"; }
    if (key.empty() && others) {
      for (const TimeZone& o : *others) {
        ZonedDateTime c = z.convertToTimeZone(o);
        CNT.add("conv.conversions");
        if (c.isError() || c.toEpochSeconds() != (acetime_t) t) { key = "c05:convert-changes-instant"; w = "convertToTimeZone changed the epoch seconds"; break; }
        if (z.compareTo(c) != 0) { key = "c05:compareTo"; w = "compareTo of the same instant in two zones is not 0"; break; }
        if (t + 1 < HI) {
          ZonedDateTime later = ZonedDateTime::forEpochSeconds((acetime_t) (t + 1), o);
          if (z.compareTo(later) != -1 || later.compareTo(z) != 1) { key = "c05:compareTo"; w = "compareTo does not order by instant across zones"; break; }
        }
      }
    }
  }
  if (!key.empty()) { J j; j.str("zone", what).num("epochSeconds", t).num("got", z.toEpochSeconds()); witness(key, w, j); }
}

// fixed offsets: OffsetDateTime and manual TimeZone, verdict restricted to t + offset inside int32
static void c05_fixed(int shard, int nshards, long long stride, bool full, const std::vector<int>& offsets) {
  for (size_t oi = 0; oi < offsets.size(); oi++) {
    int om = offsets[oi];
    TimeOffset off = TimeOffset::forMinutes((int16_t) om);
    TimeZone tz = TimeZone::forTimeOffset(off);
    TimeZone tz2 = TimeZone::forTimeOffset(TimeOffset::forMinutes((int16_t) (om - 30)), TimeOffset::forMinutes(30));
    int64_t lo = (int64_t) INT32_MIN + 1, hi = INT32_MAX;
    // keep t + offset and the day arithmetic representable: C09 owns the rest
    int64_t offs_s = (int64_t) om * 60;
    int64_t vlo = std::max<int64_t>(lo, -24855LL * 86400 - offs_s), vhi = std::min<int64_t>(hi, (int64_t) INT32_MAX - offs_s);
    std::vector<int64_t> pts;
    auto one = [&](int64_t t) {
      if (t < vlo || t > vhi) return;
      OffsetDateTime odt = OffsetDateTime::forEpochSeconds((acetime_t) t, off);
      CNT.add("conv.fixed_instants");
      Civil c = civil_from_seconds(t + (int64_t) om * 60);
      std::string key, w;
      if (odt.isError()) { key = "c05:error-inside-range"; w = "OffsetDateTime of a valid instant is an error"; }
      else if (odt.toEpochSeconds() != (acetime_t) t) { key = "c05:roundtrip"; w = "OffsetDateTime round trip changed the instant"; }
      else if (odt.year() != c.y || odt.month() != c.mo || odt.day() != c.d || odt.hour() != c.h || odt.minute() != c.mi || odt.second() != c.s) { key = "c05:fields"; w = "OffsetDateTime fields are not UTC fields shifted by the offset"; }
      else {
        ZonedDateTime z = ZonedDateTime::forEpochSeconds((acetime_t) t, tz);
        ZonedDateTime z2 = ZonedDateTime::forEpochSeconds((acetime_t) t, tz2);
        if (z.toEpochSeconds() != (acetime_t) t || z.localDateTime() != odt.localDateTime()) { key = "c05:manual-zone"; w = "manual zone date-time differs from OffsetDateTime"; }
        else if (z2.toEpochSeconds() != (acetime_t) t || z2.localDateTime() != odt.localDateTime()) { key = "c05:manual-zone-dst"; w = "manual zone with std+dst split differs"; }
        int64_t u = t + 946684800LL;
        if (key.empty() && u <= INT32_MAX) {
          CNT.add("conv.unix_checked");
          if ((int64_t) odt.toUnixSeconds() != u || OffsetDateTime::forUnixSeconds((acetime_t) u, off) != odt) { key = "c05:unix-delta"; w = "OffsetDateTime unix variants do not differ by 946684800"; }
        }
        if (key.empty()) {
          // conversion to another offset keeps the instant (target kept inside int32 as well)
          int om2 = offsets[(oi + 3) % offsets.size()];
          int64_t t2 = t + (int64_t) om2 * 60;
          if (t2 >= -24855LL * 86400 && t2 < INT32_MAX) {
            OffsetDateTime c2 = odt.convertToTimeOffset(TimeOffset::forMinutes((int16_t) om2));
            CNT.add("conv.conversions");
            if (c2.toEpochSeconds() != (acetime_t) t || c2.compareTo(odt) != 0) { key = "c05:convert-changes-instant"; w = "convertToTimeOffset changed the epoch seconds"; }
            else if (t + 1 <= vhi && t2 + 1 < INT32_MAX) {
              OffsetDateTime nx = OffsetDateTime::forEpochSeconds((acetime_t) (t + 1), TimeOffset::forMinutes((int16_t) om2));
              if (odt.compareTo(nx) != -1 || nx.compareTo(odt) != 1) { key = "c05:compareTo"; w = "OffsetDateTime::compareTo does not order by instant"; }
            }
          }
          // ordering against a distant partner (the instant mirrored in the valid range: distances 0 .. 2^32 - 1 seconds),
          // under another offset, both as OffsetDateTime and as ZonedDateTime of manual zones
          int64_t p = vlo + (vhi - t), p2 = p + (int64_t) om2 * 60;
          if (key.empty() && p >= lo && p <= hi && p2 >= -24855LL * 86400 && p2 < INT32_MAX) {
            TimeOffset off2 = TimeOffset::forMinutes((int16_t) om2);
            OffsetDateTime far = OffsetDateTime::forEpochSeconds((acetime_t) p, off2);
            ZonedDateTime zfar = ZonedDateTime::forEpochSeconds((acetime_t) p, TimeZone::forTimeOffset(off2));
            int want = t < p ? -1 : (t > p ? 1 : 0);
            CNT.add("conv.distant_pairs");
            if (std::llabs(t - p) > (int64_t) INT32_MAX) CNT.add("conv.distant_pairs_beyond_2^31");
            if (far.isError() || zfar.isError()) { key = "c05:error-inside-range"; w = "date-time of a valid instant is an error"; }
            else if (odt.compareTo(far) != want || far.compareTo(odt) != -want) { key = "c05:compareTo-distant"; w = "OffsetDateTime::compareTo does not order two distant instants"; }
            else if (z.compareTo(zfar) != want || zfar.compareTo(z) != -want) { key = "c05:compareTo-distant"; w = "ZonedDateTime::compareTo does not order two distant instants"; }
            if (!key.empty()) { J j; j.num("offset_min", om).num("epochSeconds", t).num("other_offset_min", om2).num("other_epochSeconds", p).num("want", want).num("got", odt.compareTo(far)); witness(key, w, j); key.clear(); }
          }
        }
      }
      if (!key.empty()) { J j; j.num("offset_min", om).num("epochSeconds", t).num("got", odt.toEpochSeconds()); witness(key, w, j); }
    };
    if (full) {
      int64_t span = vhi - vlo + 1;
      int64_t a = vlo + span * shard / nshards, b = vlo + span * (shard + 1) / nshards;
      for (int64_t t = a; t < b; t++) one(t);
    } else {
      for (int64_t t = vlo + (int64_t) shard * stride; t <= vhi; t += stride * nshards) one(t);
      if ((int) (oi % nshards) == shard) {
        for (int64_t day = -24855; day <= 24855; day++) for (int d = -2; d <= 2; d++) { one(day * 86400 + d); one(day * 86400 - (int64_t) om * 60 + d); }
        for (int64_t t = vlo; t < vlo + 3000; t++) one(t);
        for (int64_t t = vhi - 3000; t <= vhi; t++) one(t);
      }
    }
    if (shard == 0 && oi < 3) { J j; j.str("kind", "fixed-offset").num("offset_min", om).num("from", vlo).num("to", vhi); sample(j); }
  }
}

static volatile long long g_sink05 = 0;
template <typename ZI, typename PROC, typename MGR>
static void c05_db(const ZI* const* reg, uint16_t n, int shard, int nshards, long long seed, const char* kind) {
  Rng rng(seed * 17 + shard);
  static MGR mgr(n, reg);
  for (uint16_t i = 0; i < n; i++) {
    if (i % nshards != shard) continue;
    PROC* p = new PROC(); PROC* q = new PROC(); PROC* r = new PROC();
    TimeZone plain = TimeZone::forZoneInfo(reg[i], p);
    TimeZone managed = mgr.createForZoneIndex(i);
    // conversion targets: two other database zones (own processors), a managed zone, a manual zone
    std::vector<TimeZone> others;
    others.push_back(TimeZone::forZoneInfo(reg[rng.below(n)], q));
    others.push_back(TimeZone::forZoneInfo(reg[rng.below(n)], r));
    others.push_back(mgr.createForZoneIndex((uint16_t) rng.below(n)));
    others.push_back(TimeZone::forTimeOffset(TimeOffset::forMinutes(-570)));
    Model plainM = {&plain, nullptr, nullptr};
    std::vector<Tr> trs = find_transitions(plainM);
    CNT.add("conv.zones");
    std::string nm = std::string(kind) + ":" + reg[i]->name;
    for (const Tr& t : trs) for (int d = -3; d <= 3; d++) { if (t.T + d >= LO && t.T + d < HI) { c05_instant(nm.c_str(), plain, t.T + d, &others); c05_instant((nm + "(managed)").c_str(), managed, t.T + d, &others); } }
    for (int64_t t = LO + rng.below(7000); t < HI; t += 86400 * 3 + 7777) { c05_instant(nm.c_str(), plain, t, nullptr); c05_instant((nm + "(managed)").c_str(), managed, t, nullptr); }
    for (int k = 0; k < 200; k++) { int64_t t = rng.range(LO, HI - 2); c05_instant(nm.c_str(), plain, t, &others); }
    // month edges next to a query in the ADJACENT year, going backwards and forwards in time: the processors key their year
    // caches by the UTC year while the cached window is in local time, so "a valid instant" must round-trip whatever was asked before
    for (int y = 2049; y >= 2001; y -= 1) {
      int64_t mid = days_from_civil(y, 7, 2) * 86400 + 43200;
      int64_t dec1 = days_from_civil(y - 1, 12, 1) * 86400, feb1 = days_from_civil(y + 1, 2, 1) * 86400;
      for (int64_t off : {0LL, 3600LL, 5 * 3600LL, 9 * 3600LL, 11 * 3600LL + 1799, -3600LL, -11 * 3600LL}) {
        if (mid >= LO && mid < HI) { c05_instant(nm.c_str(), plain, mid, nullptr); c05_instant((nm + "(managed)").c_str(), managed, mid, nullptr); }
        if (dec1 + off >= LO && dec1 + off < HI) { c05_instant(nm.c_str(), plain, dec1 + off, nullptr); c05_instant((nm + "(managed)").c_str(), managed, dec1 + off, nullptr); }
        if (mid >= LO && mid < HI) c05_instant(nm.c_str(), plain, mid, nullptr);
        if (feb1 + off >= LO && feb1 + off < HI) { c05_instant(nm.c_str(), plain, feb1 + off, nullptr); c05_instant((nm + "(managed)").c_str(), managed, feb1 + off, nullptr); }
        CNT.add("conv.month_edge_after_adjacent_year", 2);
      }
    }
    // "every valid instant" whatever was asked before, values outside the zone's data included: a valid instant, then an
    // instant far outside the supported range (the result is an error value, as it should be), then the SAME valid instant
    // and one of the same year again
    static const int64_t kOutside[] = {-1262304000LL /*1960*/, -315619200LL /*1990*/, 1893456000LL /*2060*/, 2145916800LL /*2068*/};   // (the int32 edges are C09's)
    for (int k = 0; k < 60; k++) {
      int64_t t = rng.range(LO + 86400 * 40, HI - 86400 * 40), out = kOutside[rng.below(4)];
      for (const TimeZone* z : {&plain, &managed}) {
        c05_instant(nm.c_str(), *z, t, nullptr);
        g_sink05 += ZonedDateTime::forEpochSeconds((acetime_t) out, *z).isError();
        c05_instant(nm.c_str(), *z, t, nullptr);
        c05_instant(nm.c_str(), *z, t + 86400 * 17 < HI && civil_from_seconds(t).y == civil_from_seconds(t + 86400 * 17).y ? t + 86400 * 17 : t - 86400 * 17, &others);
        CNT.add("conv.valid_instant_after_out_of_range_query", 2);
      }
    }
    // transitions of the *targets* as well
    for (size_t oi = 0; oi < 2; oi++) { Model om = {&others[oi], nullptr, nullptr}; std::vector<Tr> ot = find_transitions(om); for (size_t k = 0; k < ot.size(); k += 3) for (int d = -1; d <= 1; d++) if (ot[k].T + d >= LO && ot[k].T + d < HI) c05_instant(nm.c_str(), plain, ot[k].T + d, &others); }
    delete p; delete q; delete r;
  }
}

// --------------------------------------------------------------------------- C04 query mode
// stdin lines:  "<zoneIndex> i <epochSeconds>"  |  "<zoneIndex> l <y> <m> <d> <h> <mi> <s>"
// stdout lines: "i <total_min> <delta_min> <abbrev>" | "l <epochSeconds|ERR> <total_min>"
static void c04_queries() {
  static ExtendedZoneProcessor procs[2];
  char line[256];
  int curZone = -1; TimeZone tz;
  while (fgets(line, sizeof line, stdin)) {
    int zi; char kind; long long a, b, c, d, e, f; char ztok[80];
    int n = sscanf(line, "%79s %c %lld %lld %lld %lld %lld %lld", ztok, &kind, &a, &b, &c, &d, &e, &f);
    if (n < 3) continue;
    if (ztok[0] >= '0' && ztok[0] <= '9') zi = atoi(ztok);
    else {   // zone given by name: exact match over the registry
      zi = -1;
      for (uint16_t k = 0; k < VERIF_EXT_NS::kZoneRegistrySize; k++) if (strcmp(VERIF_EXT_NS::kZoneRegistry[k]->name, ztok) == 0) { zi = k; break; }
      if (zi < 0) { printf("%c NOZONE NOZONE -\n", kind); continue; }
    }
    if (zi != curZone) { curZone = zi; tz = TimeZone::forZoneInfo(VERIF_EXT_NS::kZoneRegistry[zi], &procs[0]); }
    if (kind == 'i') {
      TimeOffset o = tz.getUtcOffset((acetime_t) a), dl = tz.getDeltaOffset((acetime_t) a);
      const char* ab = tz.getAbbrev((acetime_t) a);
      if (o.isError()) printf("i ERR ERR -\n"); else printf("i %d %d %s\n", o.toMinutes(), dl.toMinutes(), ab[0] ? ab : "-");
    } else if (kind == 'l' && n == 8) {
      ZonedDateTime z = ZonedDateTime::forComponents((int16_t) a, (uint8_t) b, (uint8_t) c, (uint8_t) d, (uint8_t) e, (uint8_t) f, tz);
      if (z.isError()) printf("l ERR ERR\n"); else printf("l %d %d\n", z.toEpochSeconds(), z.timeOffset().toMinutes());
    }
    CNT.add("c04.cpp_answers");
  }
}

int main(int argc, char** argv) {
  Args a(argc, argv);
  std::string mode = a.get("mode");
  PROP = a.get("prop", "c07");
  int startYear = (int) a.num("start-year", 2000), untilYear = (int) a.num("until-year", 2050);
  LO = days_from_civil(startYear, 1, 1) * 86400; HI = std::min<int64_t>(days_from_civil(untilYear, 1, 1) * 86400, INT32_MAX);
  int shard = a.shard(), nsh = a.nshards();
  Rng rng(a.num("seed", 0) * 131 + shard + 7);
  if (mode == "c07") {
    if (a.has("oracle-basic") && !ORA_B.load(a.get("oracle-basic"))) { fprintf(stderr, "cannot load oracle file\n"); return 3; }
    if (a.has("oracle-ext") && !ORA_X.load(a.get("oracle-ext"))) { fprintf(stderr, "cannot load oracle file\n"); return 3; }
    long long nrandom = a.num("random", 2000);
    std::string db = a.get("db", "both");
    if (shard == 0) c07_manual(rng);
    if (db != "extended") for (uint16_t i = 0; i < VERIF_BASIC_NS::kZoneRegistrySize; i++) if (i % nsh == shard) c07_zone<basic::ZoneInfo, BasicZoneProcessor>(VERIF_BASIC_NS::kZoneRegistry[i], false, nrandom, rng);
    if (db != "basic") for (uint16_t i = 0; i < VERIF_EXT_NS::kZoneRegistrySize; i++) if (i % nsh == shard) c07_zone<extended::ZoneInfo, ExtendedZoneProcessor>(VERIF_EXT_NS::kZoneRegistry[i], true, nrandom, rng);
  } else if (mode == "c05fixed") {
    std::vector<int> offs;
    if (a.has("full")) offs = {0, -480, 330, 765, -570, 840, -720, 1, -1};
    else { for (int m = -960; m <= 960; m += 15) offs.push_back(m); for (int m : {1, -1, 7, -7, 59, -59, 61, -61, 1439, -1439}) offs.push_back(m); }
    c05_fixed(shard, nsh, a.num("stride", 997), a.has("full"), offs);
  } else if (mode == "c05db") {
    c05_db<basic::ZoneInfo, BasicZoneProcessor, BasicZoneManager<2>>(VERIF_BASIC_NS::kZoneRegistry, VERIF_BASIC_NS::kZoneRegistrySize, shard, nsh, a.num("seed", 0), "basic");
    c05_db<extended::ZoneInfo, ExtendedZoneProcessor, ExtendedZoneManager<2>>(VERIF_EXT_NS::kZoneRegistry, VERIF_EXT_NS::kZoneRegistrySize, shard, nsh, a.num("seed", 0), "extended");
  } else if (mode == "c04q") {
    c04_queries();
  } else { fprintf(stderr, "unknown mode\n"); return 3; }
  CNT.flush();
  return 0;
}
