// Independent view of java.time for the C19 monitor of tools/compare_java/TestDataGenerator.java.
// stdin lines:  "Z <zone>"                      -> "Z <zone> known|unknown"
//               "C <zone> <startYear> <untilYear>" -> one line per change of total offset or DST offset that java.time exhibits
//                                                 in [startYear-01-01T00:00 local, untilYear-01-01T00:00 local): "C <epochSecondsSince2000>"
//                                                 (found by scanning getOffset/getDaylightSavings hourly and bisecting, not by nextTransition)
//               "S <zone> <year> <month> <day> <hour>" -> "S <epochSecondsSince2000>" of that local date-time as ZonedDateTime.of resolves it
//               "I <zone> <epochSecondsSince2000>" -> "I total dst y M d h m s"
import java.io.*;
import java.time.*;
import java.time.zone.*;

public class Probe {
  static final long SHIFT = 946684800L;
  static long key(ZoneRules r, long t) {
    Instant i = Instant.ofEpochSecond(t);
    return r.getOffset(i).getTotalSeconds() * 100000L + r.getDaylightSavings(i).getSeconds();
  }
  public static void main(String[] a) throws IOException {
    BufferedReader in = new BufferedReader(new InputStreamReader(System.in));
    PrintWriter out = new PrintWriter(new BufferedWriter(new OutputStreamWriter(System.out)));
    String line;
    while ((line = in.readLine()) != null) {
      String[] f = line.trim().split(" ");
      if (f.length < 2) continue;
      ZoneId z;
      try { z = ZoneId.of(f[1]); } catch (Exception e) { out.println("Z " + f[1] + " unknown"); continue; }
      ZoneRules r = z.getRules();
      if (f[0].equals("Z")) { out.println("Z " + f[1] + " known"); }
      else if (f[0].equals("C")) {
        long lo = ZonedDateTime.of(Integer.parseInt(f[2]), 1, 1, 0, 0, 0, 0, z).toEpochSecond();
        long hi = ZonedDateTime.of(Integer.parseInt(f[3]), 1, 1, 0, 0, 0, 0, z).toEpochSecond();
        long prevT = lo, prevK = key(r, lo);
        for (long t = lo + 3600; t <= hi; t += 3600) {
          long tt = Math.min(t, hi - 1);
          long k = key(r, tt);
          if (k != prevK) {
            long x = prevT, y = tt, kx = prevK;
            while (y - x > 1) { long m = x + (y - x) / 2; if (key(r, m) == kx) x = m; else y = m; }
            out.println("C " + (y - SHIFT));
            // several changes inside one hour: restart right after the one found
            prevT = y; prevK = key(r, y); t = y - (y % 3600) ; continue;
          }
          prevT = tt; prevK = k;
        }
        out.println("C end");
      }
      else if (f[0].equals("S")) {
        ZonedDateTime d = ZonedDateTime.of(LocalDateTime.of(Integer.parseInt(f[2]), Integer.parseInt(f[3]), Integer.parseInt(f[4]), Integer.parseInt(f[5]), 0, 0), z);
        out.println("S " + (d.toEpochSecond() - SHIFT));
      }
      else if (f[0].equals("I")) {
        long t = Long.parseLong(f[2]) + SHIFT;
        Instant i = Instant.ofEpochSecond(t);
        ZonedDateTime d = ZonedDateTime.ofInstant(i, z);
        out.println("I " + r.getOffset(i).getTotalSeconds() + " " + r.getDaylightSavings(i).getSeconds() + " " + d.getYear() + " " + d.getMonthValue() + " "
            + d.getDayOfMonth() + " " + d.getHour() + " " + d.getMinute() + " " + d.getSecond());
      }
    }
    out.flush();
  }
}
