#!/venv/bin/python
"""Store a confirmed sub-agent change under /verif/seeded/<ID>/ (patch.diff, demonstration, meta.json).
usage: adopt_seed.py ROUND ID "<check>=<outcome>" ...     (reads /tmp/seed/out/<ID>/, patch from the confirm step)"""
import json
import shutil
import sys
from pathlib import Path
V = Path(__file__).resolve().parent.parent
rnd, ID, outcomes = sys.argv[1], sys.argv[2], sys.argv[3:]
O = Path("/tmp/seed/out") / ID
D = V / "seeded" / ID
D.mkdir(parents=True, exist_ok=True)
shutil.copy("/tmp/confirmpatch_%s.diff" % ID, D / "patch.diff")
for n in ("demo.py", "demo.cpp"):
    if (O / n).exists():
        shutil.copy(O / n, D / n)
m = json.loads((O / "meta.json").read_text())
meta = {
    "property": m["property"],
    "origin": "fresh sub-agent (round %s) given only the property text, one-line summaries of the changes earlier agents had made for this "
              "property (to avoid repeats), and its own git worktree of /repo (plus a build note for the Arduino shim); asked to pick a "
              "function no earlier change touched and a change that needs two conditions at once; nothing from /verif" % rnd,
    "summary": m.get("summary", ""),
    "needs": m.get("needs", ""),
    "agent_commands": m.get("commands", []),
    "confirmed_by": ["py/confirm_seed.sh %s: in the agent's worktree: pytest tools/tests -> 34 passed with the change; demonstration with the "
                     "change -> non-zero exit; change reverted with git apply -R -> exit 0; change re-applied" % ID],
    "checks_run": dict(o.split("=", 1) for o in outcomes),
    "how_run": "VERIF_SEED=1 py/seedeval.py /verif/seeded/%s/patch.diff quick <checks>" % ID,
}
(D / "meta.json").write_text(json.dumps(meta, indent=1) + "\n")
print("stored", D)
