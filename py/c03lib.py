"""Translation validation by execution for the TZ compiler (C03; reused by C04/C12/C20).

check_program(): compile one TZ source with the real pipeline (contracts attached), run every emitted zone
through the matching real interpreter (Python ZoneSpecifier / C++ processors), compare with zic on the
same text, and audit the accounting of every input zone and link.
"""
import concurrent.futures as cf
import json
import pickle
import subprocess
import sys
from pathlib import Path

import tzpipe
import tzsrc
import vlib
import zicoracle

N = vlib.NCPU


class Rejected(Exception):
    """zic itself rejects the source: out of scope, discard."""


def zic_segments(p, workdir, names=None, selfcheck_zones=6, start_year=2000, until_year=2050):
    names = sorted(p["zones"]) if names is None else names
    try:
        segs, warn = zicoracle.compile_segments(tzsrc.split_for_zic(p), Path(workdir) / "split", names)
    except zicoracle.OracleError as e:
        raise Rejected(str(e))
    if selfcheck_zones:
        bad, checked = zicoracle.self_check(tzsrc.render_long(p), segs, Path(workdir) / "sc", names,
                                            start_year=start_year, until_year=until_year, max_zones=selfcheck_zones)
        if bad:
            raise zicoracle.OracleError("oracle self-check failed: %r" % (bad[:2],))
    return segs


def truncation_noted(tzdb, zone, zones_map=None):
    """Zones/policies whose notable entry documents a truncation: excluded from the semantic verdict."""
    for r in tzdb['notable_zones'].get(zone, []):
        if 'truncated' in r:
            return True
    for era in (tzdb['zones_map'].get(zone) or []):
        pol = era.get('rules')
        for r in tzdb['notable_policies'].get(pol, []):
            if 'truncated' in r:
                return True
    return False


def run_py_workers(work_items, workdir, timeout=1800):
    """work_items: list of dicts for pyworker.py.  Returns merged {"witnesses","counters","samples"}."""
    workdir = Path(workdir)
    workdir.mkdir(parents=True, exist_ok=True)
    jobs = []
    for i, w in enumerate(work_items):
        wf, of = workdir / ("work%03d.pkl" % i), workdir / ("out%03d.json" % i)
        wf.write_bytes(pickle.dumps(w))
        jobs.append((wf, of))
    merged = {"witnesses": [], "counters": {}, "samples": [], "failed": []}

    def one(job):
        wf, of = job
        p = subprocess.run([sys.executable, str(vlib.VERIF / "py" / "pyworker.py"), str(wf), str(of)],
                           capture_output=True, text=True, timeout=timeout)
        return job, p
    with cf.ThreadPoolExecutor(max_workers=N) as ex:
        for (wf, of), p in ex.map(one, jobs):
            if p.returncode != 0 or not of.exists():
                merged["failed"].append({"work": str(wf), "rc": p.returncode, "stderr": p.stderr[-1500:]})
                continue
            o = json.loads(of.read_text())
            merged["witnesses"] += o["witnesses"]
            merged["samples"] += o["samples"]
            for k, n in o["counters"].items():
                merged["counters"][k] = merged["counters"].get(k, 0) + n
    return merged


def shard_dict(d, n):
    keys = sorted(d)
    return [{k: d[k] for k in keys[i::n]} for i in range(n) if keys[i::n]]


def accounting(v, prog_id, scope, p, c, prop="c03"):
    """Every input zone and link is emitted or listed as removed with a reason."""
    tzdb = c.tzdb
    emitted_z, emitted_l = set(tzdb['zones_map']), set(tzdb['links_map'])
    n = 0
    for z in p["zones"]:
        n += 1
        if z in emitted_z:
            continue
        reasons = tzdb['removed_zones'].get(z)
        if not reasons:
            where = "booked under removed_policies" if tzdb['removed_policies'].get(z) else "not booked anywhere"
            v.violation(prop + ":zone-silently-dropped", "input zone neither emitted nor listed as removed with a reason",
                        {"program": prog_id, "scope": scope, "zone": z, "where": where})
    for l in p["links"]:
        n += 1
        if l in emitted_l:
            continue
        if not tzdb['removed_links'].get(l):
            if any(l == dl for _, dl in p.get("earlier_links", [])):
                # known mechanism (see known_findings.json): a link name listed on more than one Link line
                v.violation(prop + ":link-listed-twice-dropped-without-reason",
                            "a link name that the source lists on two Link lines (zic: the last one wins) is left out of the database without being listed as removed",
                            {"program": prog_id, "scope": scope, "link": l})
                continue
            v.violation(prop + ":link-silently-dropped", "input link neither emitted nor listed as removed with a reason",
                        {"program": prog_id, "scope": scope, "link": l})
    # emitted links point to emitted zones, with the input's target
    for l, t in tzdb['links_map'].items():
        if t not in emitted_z:
            v.violation(prop + ":link-to-missing-zone", "emitted link points to a zone that is not emitted",
                        {"program": prog_id, "scope": scope, "link": l, "target": t})
        elif p["links"].get(l) != t:
            v.violation(prop + ":link-target-altered", "emitted link has a different target than the source",
                        {"program": prog_id, "scope": scope, "link": l, "target": t, "source_target": p["links"].get(l)})
    # names that were invented
    for z in emitted_z:
        if z not in p["zones"]:
            v.violation(prop + ":zone-invented", "emitted zone is not in the input", {"program": prog_id, "zone": z})
    return n


def _hms(s):
    """Own reading of a TZ time field '[-]h[:mm[:ss]]' in seconds (None when not of that shape)."""
    import re
    m = re.fullmatch(r'(-?)(\d+)(?::(\d+))?(?::(\d+))?', s or '')
    if not m:
        return None
    v = int(m.group(2)) * 3600 + int(m.group(3) or 0) * 60 + int(m.group(4) or 0)
    return -v if m.group(1) else v


def alterations_noted(v, prog_id, scope, c, prop="c03"):
    """No input is silently altered: every value the generators will emit that differs from what the source line says
    (UNTIL / STDOFF / fixed SAVE of an era, AT / SAVE of a rule) must carry a note naming that source value.
    The emitted value is the '...Truncated' field the generators read; the source value is re-read here from the
    raw string the extractor kept, not from the compiler's own parsed field."""
    tzdb = c.tzdb
    n = 0

    def need(coll, name, raw, word, kind, extra):
        reasons = tzdb[coll].get(name) or []
        if not any(word in r and 'truncated' in r and ("'%s'" % raw) in r for r in reasons):
            v.violation("%s:altered-without-note:%s" % (prop, kind),
                        "an emitted value differs from the source line and no note for that zone/policy names it",
                        {"program": prog_id, "scope": scope, "name": name, "source_value": raw, "notes_present": sorted(reasons)[:6], **extra})
    for z, eras in tzdb['zones_map'].items():
        for e in eras:
            n += 1
            raw = _hms(e.get('untilTime'))
            if raw is not None and 'untilSecondsTruncated' in e and e['untilSecondsTruncated'] != raw:
                need('notable_zones', z, e['untilTime'], 'UNTIL time', 'until', {"emitted": e['untilSecondsTruncated'], "source_seconds": raw})
            raw = _hms(e.get('offsetString'))
            if raw is not None and 'offsetSecondsTruncated' in e and e['offsetSecondsTruncated'] != raw:
                need('notable_zones', z, e['offsetString'], 'STDOFF', 'stdoff', {"emitted": e['offsetSecondsTruncated'], "source_seconds": raw})
            if e.get('rulesDeltaSeconds') is not None and e.get('rulesDeltaSecondsTruncated') != e.get('rulesDeltaSeconds'):
                if not any('RULES delta offset' in r and 'truncated' in r for r in tzdb['notable_zones'].get(z) or []):
                    v.violation(prop + ":altered-without-note:fixed-save", "a fixed SAVE in the RULES column was truncated without a note",
                                {"program": prog_id, "scope": scope, "name": z, "seconds": e.get('rulesDeltaSeconds'),
                                 "emitted": e.get('rulesDeltaSecondsTruncated')})
    users = {}
    for z, eras in tzdb['zones_map'].items():
        for e in eras:
            users.setdefault(e.get('rules'), set()).add(z)
    for pol, rules in tzdb['rules_map'].items():
        for r in rules:
            n += 1
            raw = _hms(r.get('atTime'))
            if raw is not None and 'atSecondsTruncated' in r and r['atSecondsTruncated'] != raw:
                need('notable_policies', pol, r['atTime'], 'AT time', 'at', {"emitted": r['atSecondsTruncated'], "source_seconds": raw})
                for z in sorted(users.get(pol, ())):
                    need('notable_zones', z, r['atTime'], 'AT time', 'at-zone-note', {"policy": pol})
            raw = _hms(r.get('deltaOffset'))
            if raw is not None and 'deltaSecondsTruncated' in r and r['deltaSecondsTruncated'] != raw:
                need('notable_policies', pol, r['deltaOffset'], 'deltaOffset', 'save', {"emitted": r['deltaSecondsTruncated'], "source_seconds": raw})
    return n


def basic_era_start_mechanism(w, scope, p, prop):
    """Known mechanism (see known_findings.json): BasicZoneProcessor starts an era that begins on Jan 1 with a
    carried-over rule at that rule's ON/AT resolved in January instead of at the era start.  Only mismatches of a
    basic-scope zone that fall in the January (UTC +-1 day) of a year in which the zone has a year-only era
    boundary followed by a named-rules era are attributed to it; everything else keeps its own key."""
    import datetime as dt
    if scope != "basic" or w.get("epochSeconds") is None or not w["key"].endswith(("offset-differs", "dst-flag-differs", "abbrev-differs")):
        return w
    t = dt.datetime(2000, 1, 1) + dt.timedelta(seconds=int(w["epochSeconds"]))
    years = {t.year} if t.month == 1 else ({t.year + 1} if (t.month == 12 and t.day == 31) else set())
    eras = p["zones"].get(w.get("zone"), [])
    for i, e in enumerate(eras[:-1]):
        nxt = eras[i + 1]
        if len(e) == 4 and int(e[3]) in years and nxt[1] != '-' and ':' not in nxt[1]:
            w = dict(w)
            w["key"] = prop + ":basic-era-start-applies-carried-rule-at-its-january-day"
            w["what"] = ("basic processor starts a Jan-1 era with the carried-over rule at that rule's day/time in January "
                         "instead of at the era start")
            return w
    return w


_MON = {m: i + 1 for i, m in enumerate(['Jan', 'Feb', 'Mar', 'Apr', 'May', 'Jun', 'Jul', 'Aug', 'Sep', 'Oct', 'Nov', 'Dec'])}
_DOW = {d: i for i, d in enumerate(['Mon', 'Tue', 'Wed', 'Thu', 'Fri', 'Sat', 'Sun'])}


def _resolve_on(year, month, on):
    """(month, day) of a TZ ON field by the calendar (own implementation, datetime only); None if not understood."""
    import calendar
    import datetime as dt
    try:
        if on.isdigit():
            return month, int(on)
        if on.startswith('last'):
            d = dt.date(year, month, calendar.monthrange(year, month)[1])
            while d.weekday() != _DOW[on[4:7]]:
                d -= dt.timedelta(days=1)
            return d.month, d.day
        wd, n = _DOW[on[:3]], int(on[5:])
        d = dt.date(year, month, n)
        step = 1 if on[3:5] == '>=' else -1
        while d.weekday() != wd:
            d += dt.timedelta(days=step)
        return d.month, d.day
    except Exception:  # noqa
        return None


def _time_and_suffix(t):
    suf = t[-1] if t and t[-1] in 'wsugz' else 'w'
    body = t[:-1] if t and t[-1] in 'wsugz' else t
    return _hms(body), ('u' if suf in 'ugz' else suf)


def era_start_on_rule_transition_mechanism(w, p, prop):
    """Known mechanism (see known_findings.json): when an era ends at a UNTIL time given in standard or universal
    time ('s', 'u') and the next era has named rules, ExtendedZoneProcessor / ZoneSpecifier compare and convert that
    start time through the candidate transitions of the NEW era (fixTransitionTimes() over the candidates starts from
    the first candidate, not from the previous era's last transition).  That is invisible unless a rule transition of
    the new era's policy lies within a day of the era start and the two eras' offsets differ there: then the era
    change (or that rule transition) moves or disappears -- e.g. 'Asia/Famagusta 3:00 1:00 +03 2017 Oct 29 1:00u'
    followed by EUAsia ('Oct lastSun 1:00u'), or 'America/Metlakatla -8:00 - PST 2015 Nov 1 1:01s' followed by
    '-9:00 US'.  Only mismatches within a day of such a boundary are attributed to it."""
    import datetime as dt
    # second symptom of the same mechanism: the interpreter's own sanity check compares the still-unconverted 's'/'u' start
    # with the wall-clock rule transition of the same day and raises 'Transitions not sorted' (the Python ZoneSpecifier is
    # also what the compiler uses to size the transition buffers, so the Arduino generator dies with it)
    raised = "Transitions not sorted" in str(w.get("error", "")) and (w["key"].endswith(":python-interpreter-raises") or ":compiler-died:" in w["key"])
    if raised:
        names = [w["zone"]] if w.get("zone") in p["zones"] else sorted(p["zones"])
        for zn in names:
            probe = era_start_on_rule_transition_mechanism({"key": prop + ":offset-differs", "zone": zn, "epochSeconds": None, "_any_time": True}, p, prop)
            if probe["key"].endswith("rule-transition-of-the-new-era"):
                w = dict(w)
                w["key"] = probe["key"]
                w["what"] = probe["what"] + " (here: ZoneSpecifier's sanity check raises 'Transitions not sorted')"
                w["boundary"], w["rule"], w["zone_with_boundary"] = probe.get("boundary"), probe.get("rule"), zn
                return w
        return w
    any_time = bool(w.get("_any_time"))
    if (w.get("epochSeconds") is None and not any_time) or not w["key"].endswith(("offset-differs", "dst-flag-differs", "abbrev-differs")):
        return w
    eras = p["zones"].get(w.get("zone"), [])
    t = dt.datetime(2000, 1, 1) + dt.timedelta(seconds=int(w["epochSeconds"] or 0))
    for i, e in enumerate(eras[:-1]):
        if len(e) < 7:
            continue
        ut, usuf = _time_and_suffix(e[6])
        if usuf == 'w' or ut is None:
            continue
        nxt = eras[i + 1]
        rules = p["rules"].get(nxt[1])
        if not rules:
            continue
        y, mo = int(e[3]), _MON.get(e[4][:3])
        md = _resolve_on(y, mo, e[5]) if mo else None
        if md is None:
            continue
        try:
            boundary = dt.datetime(y, md[0], md[1]) + dt.timedelta(seconds=ut)      # in 's' or 'u' time: within 16 h of UTC
        except ValueError:
            continue
        if not any_time and abs((t - boundary).total_seconds()) > (16 + 24) * 3600:
            continue
        for r in rules:
            lo = int(r[0])
            hi = lo if r[1] == 'only' else (9999 if r[1] == 'max' else int(r[1]))
            rmo = _MON.get(r[3][:3])
            for yy in (y - 1, y, y + 1):
                if not (lo <= yy <= hi) or rmo is None:
                    continue
                rd = _resolve_on(yy, rmo, r[4])
                rt, _ = _time_and_suffix(r[5])
                if rd is None or rt is None:
                    continue
                try:
                    when = dt.datetime(yy, rd[0], rd[1]) + dt.timedelta(seconds=rt)
                except ValueError:
                    continue
                if abs((when - boundary).total_seconds()) <= 86400:
                    w = dict(w)
                    w["key"] = prop + ":era-start-in-s-or-u-time-within-a-day-of-a-rule-transition-of-the-new-era"
                    w["what"] = ("an era start given in 's'/'u' time is compared and converted through the new era's candidate "
                                 "transitions; with a rule transition of the new era within a day the change moves or a transition is lost")
                    w["boundary"] = "%s%s" % (boundary.isoformat(), usuf)
                    w["rule"] = " ".join(r)
                    return w
    return w


def zic_postprocessing_mechanism(w, p, prop, zone_info, zsegs):
    """Two places where zic's output is not the literal reading of the source (see known_findings.json):
    (A) zic -- for the benefit of old readers -- drops a transition whose local time is overtaken by the next one
        (writezone: at[i] + utoff[before] <= at[i-1] + utoff[before that]) and lets the earlier transition go straight to
        the later type; AceTime keeps both.  Attributed only when AceTime's own transitions T1 < T2 satisfy exactly that
        inequality around the instant and zic's value equals AceTime's value after T2.
    (B) before a zone's first transition zic uses a 'default type'; when the first era's rules give no standard time
        before their first transition zic takes the first standard type of a LATER era.  Attributed only when zic's
        offset there is impossible for the first era (STDOFF + any SAVE of its policy), or when every rule of the first
        era's policy begins after that era's UNTIL year (the era then yields no time type of its own: mutant-7000-612,
        'Pacific/Guam 10:00 Guam G%sT 2000 Dec 23' with the only Guam rule starting in 2026: zic ChST, AceTime GST)."""
    if w.get("epochSeconds") is None or not w["key"].endswith(("offset-differs", "dst-flag-differs", "abbrev-differs")):
        return w
    t = int(w["epochSeconds"])
    unix = t + 946684800
    starts = [(-1 << 62) if s[0] is None else s[0] for s in zsegs]
    import bisect
    zi = max(bisect.bisect_right(starts, unix) - 1, 0)
    zval = tuple(zsegs[zi][1:4])
    # (B)
    if zi == 0 and zsegs[0][0] is None:
        era0 = p["zones"].get(w.get("zone"), [[]])[0]
        std = _hms(era0[0]) if era0 else None
        saves = {0}
        if era0 and era0[1] in p["rules"]:
            saves |= {_hms(r[6]) or 0 for r in p["rules"][era0[1]]}
        elif era0 and era0[1] != '-' and _hms(era0[1]) is not None:
            saves = {_hms(era0[1])}
        # ... or every rule of the first era's policy begins after that era has ended: the era then contributes no time type at all
        no_rule_yet = False
        if era0 and era0[1] in p["rules"] and len(era0) > 3:
            no_rule_yet = all(int(r[0]) > int(era0[3]) for r in p["rules"][era0[1]])
        if std is not None and (zval[0] not in {std + sv for sv in saves} or no_rule_yet):
            w = dict(w)
            w["key"] = prop + ":zic-default-type-before-first-transition-taken-from-later-era"
            w["what"] = "before the zone's first transition zic reports an offset the first era cannot have (its default-type heuristic)"
            return w
    # (A)
    try:
        import sys
        sys.path.insert(0, str(vlib.REPO / "tools"))
        from zonedb.zone_specifier import ZoneSpecifier
        zs = ZoneSpecifier(zone_info)
        zs.get_timezone_info_for_seconds(t)
        trs = sorted(zs.transitions, key=lambda x: x.startEpochSecond)
        for i in range(1, len(trs) - 1):
            T1, T2 = trs[i].startEpochSecond, trs[i + 1].startEpochSecond
            if not (T1 <= t < T2):
                continue
            tot = lambda x: x.offsetSeconds + x.deltaSeconds   # noqa: E731
            after = (tot(trs[i + 1]), 1 if trs[i + 1].deltaSeconds else 0, trs[i + 1].abbrev)
            if T2 + tot(trs[i]) <= T1 + tot(trs[i - 1]) and (zval[0], 1 if zval[1] else 0, zval[2]) == after and starts[zi] == T1 + 946684800:
                w = dict(w)
                w["key"] = prop + ":zic-merges-transition-overtaken-in-local-time"
                w["what"] = ("zic dropped a transition whose local time is overtaken by the next one (%d s later) and goes straight "
                             "to the later type; AceTime keeps both" % (T2 - T1))
                return w
    except Exception:  # noqa   classification is best effort: an unclassified mismatch stays a plain violation
        pass
    return w


def check_program(v, prog_id, p, workdir, scopes=("extended", "basic"), targets=("python", "arduino"), start_year=2000,
                  until_year=2050, grid=5, nbhd=120, py_grid_s=6 * 3600 + 1800, stats=None, selfcheck_zones=6, expect_percent_z=(), san=False, prop="c03", strict=False, granularity=None):
    """Returns a dict of statistics; violations go to `v`."""
    st = stats if stats is not None else {}
    workdir = Path(workdir)
    text = tzsrc.render_long(p)
    segs = zic_segments(p, workdir / "zic", selfcheck_zones=selfcheck_zones, start_year=start_year, until_year=until_year)
    indir = tzpipe.write_input_dir(text, workdir / "in")
    st["programs"] = st.get("programs", 0) + 1
    for scope in scopes:
        fails_before = len(tzpipe.CONTRACT_FAILS)
        try:
            c = tzpipe.compile_source(indir, scope, start_year, until_year, strict=strict,
                                      **({"until_at_granularity": granularity, "offset_granularity": granularity} if granularity else {}))
        except tzpipe.CompilerDied as e:
            v.violation("%s:compiler-died:%s:%s" % (prop, e.stage, type(e.exc).__name__),
                        "the compiler raised/exited on a source that zic accepts instead of listing the input as removed",
                        {"program": prog_id, "scope": scope, "error": repr(e.exc)[:400], "source_head": text[:1500]})
            continue
        for f in tzpipe.CONTRACT_FAILS[fails_before:]:
            v.violation("%s:accounting:%s" % (prop, f["pass"]),
                        "a Transformer pass lost %s names without booking them as removed" % f["what"],
                        {"program": prog_id, "scope": scope, **f})
        st["accounted_names"] = st.get("accounted_names", 0) + accounting(v, prog_id, scope, p, c, prop)
        st["compilations"] = st.get("compilations", 0) + 1
        st["values_compared_with_source_line"] = st.get("values_compared_with_source_line", 0) + alterations_noted(v, prog_id, scope, c, prop)
        emitted = sorted(c.tzdb['zones_map'])
        judged = [z for z in emitted if not truncation_noted(c.tzdb, z)]
        st["zones_emitted"] = st.get("zones_emitted", 0) + len(emitted)
        st["zones_excluded_truncation_note"] = st.get("zones_excluded_truncation_note", 0) + len(emitted) - len(judged)
        pz = set(expect_percent_z)

        def classify(w):
            w = basic_era_start_mechanism(w, scope, p, prop)
            w = era_start_on_rule_transition_mechanism(w, p, prop)
            if w.get("zone") in c.zone_infos and w.get("zone") in segs:
                w = zic_postprocessing_mechanism(w, p, prop, c.zone_infos[w["zone"]], segs[w["zone"]])
            if w.get("zone") in pz and "abbrev" in w["key"]:
                w = dict(w)
                w["key"] = prop + ":format-%z-unsupported"
                w["what"] = "FORMAT %z (tzdata >= 2024b) with named RULES is expanded with the rule LETTER"
            w["program"], w["scope"] = prog_id, scope
            return w
        if "python" in targets and judged:
            infos = {z: c.zone_infos[z] for z in judged}
            items = [{"mode": "zic", "prop": prop, "zone_infos": sh, "segments": {z: segs[z] for z in sh},
                      "start_year": start_year, "until_year": until_year, "grid_s": py_grid_s} for sh in shard_dict(infos, N if len(infos) > 40 else 2)]
            m = run_py_workers(items, workdir / ("py-" + scope))
            for f in m["failed"]:
                v.violation(prop + ":python-worker-died", "python interpreter worker died", {"program": prog_id, "scope": scope, **f})
            for w in m["witnesses"]:
                w = classify(w)
                v.violation(w["key"], w["what"], w)
            for k, n in m["counters"].items():
                st["py." + k] = st.get("py." + k, 0) + n
            st.setdefault("samples", []).extend(m["samples"][:1])
        if "arduino" in targets and judged:
            ns = "gendbx" if scope == "extended" else "gendb"
            gen = workdir / ("gen-" + scope)
            try:
                tzpipe.generate_arduino(c, gen, ns)
            except tzpipe.CompilerDied as e:
                w = classify({"key": "%s:compiler-died:%s:%s" % (prop, e.stage, type(e.exc).__name__),
                              "what": "the Arduino generator raised on a source the transformer accepted", "error": repr(e.exc)[:400]})
                v.violation(w["key"], w["what"], w)
                continue
            ofile = workdir / ("oracle-%s.bin" % scope)
            zicoracle.write_oracle_file(ofile, {z: segs[z] for z in judged}, judged)
            defs = ["VERIF_GEN_REGISTRY_H=\"%s\"" % (gen / "zone_registry.h"),
                    ("VERIF_EXT_NS=" if scope == "extended" else "VERIF_BASIC_NS=") + ns, "VERIF_SKIP_MISSING=1"]
            try:
                exe = vlib.build(vlib.VERIF / "native" / "tzsweep.cpp", "sanrec" if san else "fast",
                                 extra_sources=[gen / "zone_infos.cpp", gen / "zone_policies.cpp", gen / "zone_registry.cpp"],
                                 defines=defs, includes=[gen], name="tzsweep_%s_%s" % (scope, "san" if san else "fast"))
            except vlib.BuildError as e:
                v.violation(prop + ":generated-code-does-not-compile", "generated C++ tables do not compile",
                            {"program": prog_id, "scope": scope, "error": str(e)[-1500:]})
                continue
            S = N if len(judged) > 30 else 2
            args = [["--oracle", ofile, "--db", scope, "--prop", prop, "--grid", grid, "--nbhd", nbhd, "--start-year", start_year,
                     "--until-year", until_year, "--shard", "%d/%d" % (i, S)] for i in range(S)]
            r = vlib.run_shards(exe, args, san="rec" if san else None, timeout=3000)
            for w in r.witnesses:
                w = classify(w)
                if w["key"].endswith(":transition-pool-high-water") and int(w.get("high_water", 0)) >= 8 and int(w.get("recorded_buf_size", 0)) > 8:
                    # known mechanism (see known_findings.json): the compiler records a size beyond the processor's fixed pool
                    w = dict(w)
                    w["key"] = prop + ":generated-zone-needs-more-transitions-than-the-processor-pool-holds"
                    w["what"] = ("the compiler emitted a zone whose recorded transition buffer size exceeds ExtendedZoneProcessor's fixed pool "
                                 "(kMaxTransitions = 8) and the pool filled up")
                if w["key"].endswith(":transition-pool-high-water-in-edge-year"):
                    w = dict(w)
                    if (int(w.get("start_year", 0)), int(w.get("until_year", 0))) == (2000, 2050):
                        # the range the shipped tables use and the estimator is adjusted for (Asia/Atyrau by name): a plain violation
                        w["key"] = prop + ":transition-pool-high-water"
                    else:
                        # the buffer clause is C09's, not C03's: handed to C09 through the statistics (known finding there:
                        # BufSizeEstimator sizes from [start_year, until_year), the processor also fills start_year-1 and until_year)
                        w["program"], w["scope"] = prog_id, scope
                        st.setdefault("edge_year_high_water", []).append(w)
                        continue
                v.violation(w["key"], w["what"] + " (arduino target)", w)
            v.absorb(vlib.ShardResult(), "")   # no-op, keeps interface uniform
            for b in r.san_blocks:
                v.violation("%s@%s" % (b["kind"], vlib.site_key(b)), "sanitizer report in generated-table sweep: " + b["message"], b)
            for cr in r.crashes:
                if not any(b["shard"] == cr["shard"] for b in r.san_blocks):
                    v.violation(prop + ":generated-table-sweep-crash", "sweep over generated tables died", {"program": prog_id, **cr})
            for t in r.timeouts:
                v.inconclusive_because("arduino sweep shard timed out for program %s" % prog_id)
            for k, n in r.counters.items():
                st["ar." + k] = st.get("ar." + k, 0) + n
            # buffer sizes recorded by the estimator vs what the C++ processor needed
            hw = r.maxima.get("sweep.max_high_water")
            if hw is not None:
                st["ar.max_high_water"] = max(st.get("ar.max_high_water", 0), hw)
            st.setdefault("samples", []).extend(r.samples[:1])
    return st
