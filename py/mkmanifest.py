#!/venv/bin/python
"""Regenerate /verif/MANIFEST.json from the table below (keeps the manifest valid at all times)."""
import json
import sys
from pathlib import Path

VERIF = Path(__file__).resolve().parent.parent
sys.path.insert(0, str(VERIF / "py"))

BASE_NOTE = ("Trusted base: clang 14 + sanitizer runtimes; the 4-header Arduino/AceCommon shim in /verif/shim; 64-bit host "
             "(AVR integer promotions not observed). Verdict = 'held on the executions described in the evidence file'.")

# property -> (category, technique, level text, level note, design ref)
CHECKS = {
    "C06": ("exploration",
            "exhaustive runtime sweep vs independent int64 civil-calendar oracle, under ASan+UBSan",
            "Every day 1873..2127, every (h,m,s) and (yearTiny,month,day) byte triple, and (thorough) every one of the 2^32-1 "
            "epoch-second values are executed through the real LocalDate/LocalTime/LocalDateTime code and compared online with "
            "an independent implementation; quick strides the seconds sweep. The domain is finite, so enumeration is the "
            "strongest thing runtime monitoring can give.",
            BASE_NOTE + " Oracle: Hinnant days_from_civil/civil_from_days on int64 in native/vcommon.h.", "3/C06"),
    "C15": ("exploration",
            "print/parse round-trip monitor vs snprintf oracle over exhaustive date/offset/zone-name domains, under ASan+UBSan",
            "All dates x 3 times, all seconds of a day, all offsets within +-99:59, every zone name of both registries, every "
            "too-short prefix and every error placeholder are printed through an in-memory Print, compared byte for byte with "
            "an snprintf oracle and parsed back.",
            BASE_NOTE, "3/C15"),
    "C17": ("exploration",
            "exhaustive runtime enumeration with arithmetic oracle, under ASan+UBSan",
            "All 1,843,199 period lengths, all sign-consistent int8 (hour,minute) pairs, all int16 minute counts, all "
            "increment15Minutes start values and every byte value for every increment helper (periods of either sign, other fields set; "
            "dates incl. days the month does not have) are executed; small finite domains, "
            "enumerated completely in both tiers.",
            BASE_NOTE + " incrementMod/incrementModOffset come from the shim (AceCommon is not vendored).", "3/C17"),
}

CHECKS.update({
    "C13": ("exploration",
            "reference-model monitor (statement's formula on 64-bit true time) over exhaustive (phase, gap) pairs and seeded schedules; ASan+UBSan slice",
            "The real SystemClock is driven through its protected clockMillis() hook: every start phase x gap pair (thorough: all "
            "65536 x 64536; quick: all phases x ~2000 boundary/seeded gaps on three counter bases straddling 2^16/2^31/2^32) and "
            "seeded multi-step schedules are compared online with T + floor((m-m0)/1000). One-step behaviour depends only on "
            "(phase, gap), so the thorough tier is exhaustive for one step; multi-step reach is sampled.",
            BASE_NOTE + " Host unsigned long is 64 bit; the injected counter is truncated to 32 bit.", "3/C13"),
    "C14": ("exploration",
            "bounded explicit-state exploration of the real class by replay, with online trace-specification monitors and a shadow clock",
            "Every input sequence to depth 6 (quick) / 7 (thorough) over time advances x reference-clock outcomes is replayed on a "
            "fresh SystemClockLoop for 26 configurations (periods, timeout, wiring, response values incl. 0, 1, -1, negative and both ends of "
            "the 32-bit range, optional TimingStats attached), five counter bases incl. wraps of the full-width counter, plus seeded "
            "3000-step random walks; monitors check apply-immediately, backup writes, no change on invalid/timeout, retry lower bound, "
            "bounded progress, silence without a reference, and exact time keeping against an independent model (value and true time of "
            "the last setting) while every gap between loop() calls is bridgeable. "
            "Reported as exploration (no separate model is checked); distinct FSM (state, period) pairs and edges are measured.",
            BASE_NOTE + " The injected counter is full width (2^64 on this host, 2^32 on the boards) and is made to wrap at ULONG_MAX in three of the five base classes.", "3/C14"),
})

CHECKS.update({
    "C10": ("exploration",
            "monitored instantiation of the real lookup template (bounds-recording broker, step-counting comparator) + stock code under ASan+UBSan, vs linear-scan oracle",
            "Small-scope exhaustive: registries of every size 0..16 (quick) / 0..40 (thorough) cut from both shipped registries, "
            "sorted, shuffled and reversed, with extreme ids and with two names for one id, plus both full registries; every present name and absent names in every gap, ids, "
            "indices. Out-of-registry reads are observed at the access, termination is decided by a logical step bound.",
            BASE_NOTE, "3/C10"),
    "C11": ("exploration",
            "exhaustive runtime read-back of compiled id constants, registries and link references vs djb2 oracles, tools hash and a recorded baseline",
            "All zones/links of zonedb and zonedbx are enumerated through a generated symbol table compiled against the real "
            "headers; Python hash_name (also on 20k..400k seeded random names) and tools/zonedbpy names are checked against the same ids and a recorded "
            "baseline; tzdata 2025b, sources with colliding names and names whose djb2 is 0, 1, 2^31-1, 2^31, 2^32-2, 2^32-1 are compiled "
            "afresh and their ids, id constants (matched to symbols, links included), registry order and link targets examined.",
            BASE_NOTE + " Baseline recorded from this release.", "3/C11"),
    "C16": ("exploration",
            "runtime save/restore and equality monitors over all zones, manual-offset grid and all type bytes, under ASan+UBSan",
            "Every zone of both registries (plain and managed), a grid of manual zones with int16 extremes, error/default zones "
            "and all 256 serialised type bytes go through save -> restore (full and partial registries, a second manager); operator== is compared "
            "with the stated relation on all pairs of a pool; manual zones are asked at 16 instants incl. the ends of the int32 range and are also "
            "reached through the setters in both orders from five starting zones; saved zones are "
            "restored through managers with fewer processor slots than zones in use and asked in random orders.",
            BASE_NOTE, "3/C16"),
})

CHECKS.update({
    "C01": ("exploration",
            "dense runtime sweep of the real processor compared online with a zic-derived oracle (TZif read directly), ASan+UBSan slice",
            "All 387 zones: every 5th minute (quick) / every minute (thorough) of 2000..2049, every second around every zic "
            "breakpoint and year boundary, bisection of every observed change, descending sweep, managed zones; thorough adds "
            "every second of the 50 years for 24 seed-chosen zones. The function is piecewise constant with minute-aligned "
            "breakpoints, so this decides every enumerated instant and brackets every change to the second.",
            BASE_NOTE + " Oracle: installed zic 2.36 on the source lines recorded beside the tables (cross-read by zoneinfo).", "3/C01"),
    "C02": ("exploration",
            "dense runtime sweep vs zic oracle + differential comparison with the extended processor + guarded drop hook + friend-class cache invariant",
            "As C01 for all 268 basic zones, plus probe-by-probe comparison with the extended processor for every shared name, "
            "a guarded hook that reports transitions dropped by the full five-slot cache, a structural cache invariant "
            "read after every year fill, and a pass in which one processor is shared by all zones of a shard and asked instant by instant.",
            BASE_NOTE + " Hook: ACE_TIME_VERIF_HOOKS in BasicZoneProcessor::addTransition.", "3/C02"),
})

CHECKS.update({
    "C05": ("exploration",
            "runtime round-trip/conversion monitors over strided or full int32 sweeps and transition neighbourhoods, ASan+UBSan slice",
            "Fixed offsets: every 997th second plus all day boundaries for 139 offsets (quick), all 2^32 instants for 9 offsets "
            "(thorough); database zones of both registries in all four kinds around every transition and on grids, converted "
            "to sampled other zones; compareTo on the same instant, the next second and, for fixed offsets, the instant mirrored in "
            "the valid range (pairs up to 2^32-1 s apart). Identities are checked on the value itself, no external oracle needed except the int64 "
            "civil calendar for fields.",
            BASE_NOTE + " Verdict domain excludes instants where t+offset leaves the int32 day arithmetic (C09).", "3/C05"),
    "C07": ("exploration",
            "runtime monitor with an occurrence-set oracle built from zic's instant->offset function (the oracle of C01/C02); ASan+UBSan slice",
            "Every minute within +-200 min of the wall-clock image of every transition of every zone of both databases, second-"
            "level edges of every gap/overlap, and seeded random wall times; expectation derived per case from the set of real "
            "occurrences {L-o : offset(L-o)=o}.",
            BASE_NOTE + " The instant->offset function is zic's reading of the lines recorded beside the shipped tables (self-checked against CPython zoneinfo); manual zones use their own fixed offset.", "3/C07"),
})

CHECKS.update({
    "C08": ("exploration",
            "history monitor with a pristine-instance shadow model: exhaustive ordered pairs of cache states + seeded interleavings on shared processors and managers; ASan+UBSan, signal-safe crash journal",
            "Every zone of both databases: all ordered pairs of 59 arguments x 16 operation pairs (with a repeated second query) "
            "on a fresh processor, each answer compared with a freshly constructed time zone asked only that question; seeded "
            "interleavings over 2..4 TimeZone values sharing one processor and over managers with cache size 1..4 holding "
            "2*SIZE+1 zones. 'All finite sequences' is explored to these bounds only.",
            BASE_NOTE + " The model is the same code in a pristine state.", "3/C08"),
    "C09": ("exploration",
            "sanitizer-instrumented hostile workloads (ASan+UBSan, report blocks classified by mechanism), crash journal, CPU-budget hang detector, buffer high-water monitor and guarded hook",
            "Boundary/product and seeded random arguments for every public factory and accessor, all call sequences to length "
            "3 (quick) / 4 (thorough) over argument classes, per-zone per-year transition-pool high-water marks against the "
            "recorded sizes (shipped tables, and tables compiled afresh from the shipped lines, tzdata 2025b, data/features.zi and seed-derived "
            "subsets with other year ranges, incl. the year before the first and after the last compiled year), the basic cache-overflow "
            "hook, abbreviation builders on exact-size heap buffers, registries of size 0 and 1, large unsorted registries (step-counted lookups), "
            "SystemClock/SystemClockLoop call histories from arbitrary counter values (logical step bound on counter reads) and the C08 histories, under ASan+UBSan "
            "at -O1 and (a slice) at -O0. A clean run is not memory safety; the int32-range-edge overflows and the compiler's buffer "
            "estimate for non-default year ranges are recorded as known findings by call site / mechanism.",
            BASE_NOTE + " UBSan groups: undefined (incl. bounds, signed overflow, null, shift); implicit-conversion and unsigned overflow are deliberately off.", "3/C09"),
})

CHECKS.update({
    "C03": ("translation_validation",
            "translation validation by execution: real compiler pipeline with conservation contracts on every pass, emitted tables run through the real interpreters and compared with zic on the same text",
            "Programs are TZ sources (lines recorded beside the shipped tables, the real 2025b release, two hand-written sources holding the rare "
            "and the unsupported constructs - also compiled with --strict and with 900 s granularities -, seed-driven mutants). "
            "Each is compiled in-process by the real Extractor/Transformer/generators (basic and extended scope) with a "
            "conservation contract on every Transformer pass; every emitted zone is executed by the Python ZoneSpecifier and, as "
            "generated C++ tables compiled in their own namespace, by the C++ processors, and compared with zic; every input "
            "zone and link must be emitted or listed as removed with a reason. 'Any source' is sampled by mutation, not enumerated.",
            BASE_NOTE + " Oracle: installed zic 2.36 on the identical text; zones carrying a truncation note are excluded (counted).", "3/C03"),
})

CHECKS.update({
    "C04": ("exploration",
            "differential runtime monitor: Python ZoneSpecifier vs the C++ extended processor on the same decoded table data; option-independence monitor",
            "Every zone of zonedbx is read back through the C++ brokers and decoded into the Python data "
            "model; both implementations answer the same instants (every transition +-{0,1,60} s, year boundaries, a grid, and instants up to "
            "16 h outside 2000..2050 whose local date is inside) and local date-times (+-200 min around every transition); the eight option "
            "combinations are compared with the default; the same on tables compiled afresh from the hand-written sources.",
            BASE_NOTE + " Each implementation is the other's oracle; zic is consulted by C01/C03.", "3/C04"),
    "C12": ("translation_validation",
            "encode with the real generator, compile, decode through the library's brokers, compare; regenerate shipped tables with tzcompiler.py and compare text and fields",
            "Programs: two synthetic databases (basic, extended) spanning the full product of admissible values per encoded field "
            "(9,006 eras and 9,006 rules) plus the two shipped databases regenerated from their recorded source lines. Every field "
            "is read back through the brokers from the compiled tables (ASan+UBSan); the same value classes written as text in Zone/Rule "
            "lines go through the whole compiler in both scopes; shipped files must equal generator output line by line.",
            BASE_NOTE + " The product covers each field's value set, not all cross-field combinations.", "3/C12"),
})

CHECKS.update({
    "C18": ("exploration",
            "exhaustive three-way runtime comparison (C++ under ASan+UBSan, Python, datetime calendar oracle) over expressions admitted by the executed transformer pass",
            "The admission predicate is the real transformer pass run on every ON string of the grammar x 12 months; every "
            "admitted expression x every year 1873..2127 (1.39 M cases) is resolved by both implementations and the calendar; for 2000..2049 "
            "each case is also built as an in-memory zone and both processors are asked on which day they apply it; the UNTIL-day path of the "
            "compiler runs on multi-era synthetic zones. Finite domain, enumerated completely in both tiers.",
            BASE_NOTE + " Oracle: Python datetime/calendar.", "3/C18"),
})

CHECKS.update({
    "C19": ("exploration",
            "runtime monitor of the real generators against the third-party libraries' own transition tables; rendered tables compiled and read back under ASan+UBSan",
            "All zones of the installed pytz and dateutil for 2000..2038, configurations aimed so that a Dec 30/31 change falls "
            "into the last partial sampling cell, and a seeded lattice of (range, interval, detect_dst); every change the "
            "library exhibits must be bracketed at adjacent minutes, every item must equal astimezone(), samples must exist; "
            "zones the library resolves must not be dropped; ranges reach past 2038; the generator scripts are run end to end (stdin -> "
            "validation_data.json); rendering is checked by compiling the generated C++ tables and reading every item back.",
            BASE_NOTE + " pytz 2026.3 / dateutil 2.9 are objects under observation: their tables are the oracle for what their API exhibits.", "3/C19"),
})

CHECKS.update({
    "C20": ("translation_validation",
            "repeated real compilations under varied hash seeds/working directories compared byte for byte; generated artefacts imported/compiled and cross-checked against each other and zic",
            "Programs are (source, scope, language/action) combinations compiled twice by tzcompiler.py in separate processes "
            "(different PYTHONHASHSEED, cwd, output dir); generated Python tables are imported and compared with the in-memory "
            "tables, every zones.txt with the emitted set, the zone_strings and validation_* artefacts and every stated count with entries "
            "counted by parsing/importing/compiling, freshly "
            "generated basic tables with extended ones probe by probe, and the checked-in tools/zonedbpy (plus zinfo.py) with "
            "zic on its own recorded lines.",
            BASE_NOTE + " Two hash seeds per program cannot prove order-independence; set-order bugs show with high probability.", "3/C20"),
})

PLANNED = {
}


def main():
    props = [json.loads(l) for l in (VERIF / "properties.jsonl").read_text().splitlines() if l.strip()]
    extra = {}
    ep = VERIF / "py" / "manifest_table.json"
    if ep.exists():
        extra = json.loads(ep.read_text())
    checks = []
    na = []
    table = dict(CHECKS)
    for k, vv in extra.get("checks", {}).items():
        table[k] = tuple(vv)
    na_reasons = extra.get("not_applicable", {})
    for p in props:
        pid = p["id"]
        if pid in table and (VERIF / "py" / "props" / (pid.lower() + ".py")).exists():
            cat, tech, text, note, ref = table[pid]
            checks.append({
                "property_id": pid,
                "quick_cmd": "./check %s --tier quick" % pid,
                "thorough_cmd": "./check %s --tier thorough" % pid,
                "evidence_file": "/verif/evidence/%s.json" % pid,
                "replay_cmd_template": "./check %s --replay {path}" % pid,
                "engine": "acetime-runtime-monitors",
                "level_claimed": {"category": cat, "text": text, "design_ref": "DESIGN.md section " + ref},
                "level_note": note,
                "technique": tech,
            })
        else:
            na.append({"property_id": pid,
                       "reason": na_reasons.get(pid, "not claimed yet: the monitor designed in DESIGN.md section 3/%s is not "
                                                     "built/calibrated in this commit (runtime monitoring does apply)" % pid)})
    man = {
        "version": 1,
        "setup_cmd": "/venv/bin/python py/setup_deps.py",
        "hooks": {
            "guard": "SEANDST_ACETIME_VERIF",
            "enable": "./check exports SEANDST_ACETIME_VERIF=1; py/vlib.py then compiles /repo/src with "
                      "-DACE_TIME_VERIF_HOOKS=1 (compile-time guard in the C++ sources)",
            "baseline_off_cmd": "cd /repo && env -u SEANDST_ACETIME_VERIF /venv/bin/python -m pytest -ra -q -p no:cacheprovider "
                                "--timeout=900 --continue-on-collection-errors",
            "source_commits": extra.get("hook_commits", []),
            "add_only": True,
        },
        "engines": [{
            "name": "acetime-runtime-monitors",
            "path": "/verif/check",
            "serves_properties": [c["property_id"] for c in checks],
            "kind_free_text": "native C++ drivers linked against the real library (clang ASan/UBSan, valgrind) with online "
                              "oracles; Python monitors/contracts around the real TZ compiler; zic as reference",
        }],
        "checks": checks,
        "not_applicable": na,
        "notes": "All checks rebuild from /repo's working tree into a scratch directory on every run. Exit 0 held / 1 violation "
                 "(VIOLATION line) / 2 inconclusive (never on the unchanged tree). Known findings: /verif/known_findings.json.",
    }
    (VERIF / "MANIFEST.json").write_text(json.dumps(man, indent=1) + "\n")
    try:
        import vlib
        vlib.ensure_deps()
        import jsonschema
        jsonschema.validate(man, json.loads(Path("/root/.vp/MANIFEST.schema.json").read_text()))
        print("MANIFEST.json valid: %d checks, %d not claimed" % (len(checks), len(na)))
    except ImportError:
        print("MANIFEST.json written (jsonschema unavailable): %d checks" % len(checks))


if __name__ == "__main__":
    main()
