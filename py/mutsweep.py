import sys, json, collections
sys.path.insert(0, str(__import__("pathlib").Path(__file__).resolve().parent))
import vlib
from props import c03
seed=int(sys.argv[1]); n=int(sys.argv[2])
grid=int(sys.argv[3]) if len(sys.argv)>3 else 30; pygrid=int(sys.argv[4]) if len(sys.argv)>4 else 86400   # thorough tier: 5 / 23400
muts=[["mutant","--seed",seed,"--index",i,"--grid",grid,"--pygrid",pygrid] for i in range(n)]
res=c03.run_workers(muts, parallel=8, jobs_each=2)
keys=collections.Counter(); rej=0
for argv,r in res:
    if r['info'].get('rejected_by_zic'): rej+=1
    ks=set(v['key'] for v in r['violations'])
    for k in ks: keys[k]+=1
    if ks or r['inconclusive']:
        print('---',r['info'].get('index'),r['info'].get('base'),r['info'].get('years'),r['info'].get('edits'), r['inconclusive'][:1])
        seen=set()
        for v in r['violations']:
            if v['key'] in seen: continue
            seen.add(v['key']); w=v.get('witness') or {}
            print('   ',v['key'],{k:str(w.get(k))[:160] for k in ('zone','scope','utc','got','zic','got_offset_min','got_delta_min','got_abbrev','zic_utoff_s','zic_isdst','zic_abbrev','error','lost','where') if w.get(k) is not None})
print(keys, 'rejected', rej)
