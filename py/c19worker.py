#!/venv/bin/python
"""C19 worker: run the real validation-data generators for a list of (library, zone, start, until, interval)
configurations and monitor their output against the third-party library's own transition tables.

usage: c19worker.py <work.json> <out.json>
"""
import bisect
import datetime as dt
import json
import logging
import sys
from pathlib import Path

HERE = Path(__file__).resolve().parent
sys.path.insert(0, str(HERE))
import vlib  # noqa: E402
sys.path.insert(0, str(vlib.REPO / "tools"))
logging.getLogger().setLevel(logging.CRITICAL + 1)

EPOCH_SHIFT = 946684800
UTC = dt.timezone.utc


def lib_table(lib, zone):
    """(tz, [(utc_unix_seconds, utcoffset_s, dst_s, abbrev)]) read directly from the library's own tables."""
    if lib == "pytz":
        import pytz
        tz = pytz.timezone(zone)
        if not hasattr(tz, "_utc_transition_times"):
            return tz, []          # fixed-offset zone
        out = []
        for t, info in zip(tz._utc_transition_times, tz._transition_info):
            try:
                ts = int(t.replace(tzinfo=UTC).timestamp())
            except (OverflowError, ValueError, OSError):
                ts = -(1 << 60)
            out.append((ts, int(info[0].total_seconds()), int(info[1].total_seconds()), info[2]))
        return tz, out
    from dateutil.tz import gettz
    tz = gettz(zone)
    if tz is None:
        return None, []
    out = []
    for t, ti in zip(getattr(tz, "_trans_list_utc", []), getattr(tz, "_trans_idx", [])):
        out.append((int(t), int(ti.offset.total_seconds()) if hasattr(ti.offset, "total_seconds") else int(ti.offset),
                    int(ti.dstoffset.total_seconds()) if ti.dstoffset is not None else 0, ti.abbr))
    return tz, out


def fields_at(tz, epoch):
    d = dt.datetime.fromtimestamp(epoch + EPOCH_SHIFT, UTC).astimezone(tz)
    return d


def check_config(cfg, out):
    lib, zone, sy, uy, interval, detect = cfg["lib"], cfg["zone"], cfg["start"], cfg["until"], cfg["interval"], cfg.get("detect_dst", True)
    c = out["counters"]
    if lib == "pytz":
        from compare_pytz.tdgenerator import TestDataGenerator
    else:
        from compare_dateutil.tdgenerator import TestDataGenerator
    tz, table = lib_table(lib, zone)
    if tz is None:
        c["zones_unknown_to_library"] = c.get("zones_unknown_to_library", 0) + 1
        return
    gen = TestDataGenerator(sy, uy, interval, detect)
    try:
        items = gen._create_test_items_for_zone(zone)
    except BaseException as e:  # noqa
        out["witnesses"].append({"key": "c19:generator-raises:%s" % type(e).__name__, "what": "the test data generator raised", "config": cfg,
                                 "error": repr(e)[:300]})
        return
    if items is None:
        # the library resolves this name (lib_table found it), so the generator owes it samples and transition pairs
        out["witnesses"].append({"key": "c19:zone-known-to-library-gets-no-items", "what": "the generator produced nothing for a zone its library resolves",
                                 "config": cfg})
        return
    c["configs"] = c.get("configs", 0) + 1
    c["items"] = c.get("items", 0) + len(items)
    by_epoch = {it["epoch"]: it for it in items}
    # (1) every item agrees with the library at its epoch
    for it in items:
        d = fields_at(tz, it["epoch"])
        want = (int(d.utcoffset().total_seconds()), int(d.dst().total_seconds()), d.year, d.month, d.day, d.hour, d.minute, d.second, d.tzname())
        got = (it["total_offset"], it["dst_offset"], it["y"], it["M"], it["d"], it["h"], it["m"], it["s"], it["abbrev"])
        c["items_checked"] = c.get("items_checked", 0) + 1
        if want != got:
            out["witnesses"].append({"key": "c19:item-differs-from-library", "what": "an item's fields are not what the library reports at its epoch",
                                     "config": cfg, "item": it, "library": list(want)})
            break
    # (2) every change of the library inside [start, until) is bracketed by a pair at adjacent minutes
    lo = int(dt.datetime(sy, 1, 1, tzinfo=UTC).timestamp())
    hi = int(dt.datetime(uy, 1, 1, tzinfo=UTC).timestamp())
    step = interval * 3600
    changes = []
    for i in range(1, len(table)):
        ts, off, dst, ab = table[i]
        if not (lo < ts < hi):
            continue
        # compare what the library's API exhibits just before and at the change (tables may hold no-op entries)
        a, b = fields_at(tz, ts - EPOCH_SHIFT - 1), fields_at(tz, ts - EPOCH_SHIFT)
        off_change = a.utcoffset() != b.utcoffset()
        dst_change = a.dst() != b.dst()
        if off_change or (detect and dst_change):
            changes.append((ts, off_change))
    # two changes inside one sampling interval are outside what a sampling generator can see: count, do not judge
    times = [t for t, _ in changes]
    for ts, off_change in changes:
        c["library_changes"] = c.get("library_changes", 0) + 1
        k = (ts - lo) // step
        cell_lo, cell_hi = lo + k * step, lo + (k + 1) * step
        same_cell = [t for t in times if cell_lo < t <= cell_hi]
        if len(same_cell) > 1:
            c["changes_sharing_a_sampling_cell_not_judged"] = c.get("changes_sharing_a_sampling_cell_not_judged", 0) + 1
            continue
        if ts % 60:
            c["changes_not_minute_aligned_not_judged"] = c.get("changes_not_minute_aligned_not_judged", 0) + 1
            continue
        left, right = ts - 60 - EPOCH_SHIFT, ts - EPOCH_SHIFT
        li, ri = by_epoch.get(left), by_epoch.get(right)
        ok = li is not None and ri is not None and li["type"] in ("A", "a", "B", "b") and ri["type"] in ("A", "a", "B", "b")
        if not ok:
            last_cell = cell_hi >= hi or dt.datetime.fromtimestamp(cell_hi, UTC).year >= uy
            key = "c19:transition-in-last-sampling-interval-missed" if last_cell else "c19:transition-not-bracketed"
            out["witnesses"].append({"key": key, "what": "a change the library exhibits inside [start_year, until_year) has no item pair at adjacent minutes",
                                     "config": cfg, "change_utc": dt.datetime.fromtimestamp(ts, UTC).isoformat(),
                                     "left_item": li, "right_item": ri})
        else:
            c["changes_bracketed"] = c.get("changes_bracketed", 0) + 1
            want_types = ("A", "B") if off_change else ("a", "b")
            if (li["type"], ri["type"]) != want_types:
                c["info_pair_type_letters_differ"] = c.get("info_pair_type_letters_differ", 0) + 1
    # (3) monthly and year-end samples
    offsets = {int(fields_at(tz, t - EPOCH_SHIFT).utcoffset().total_seconds()) for t in range(lo, hi, 86400 * 45)} | {o for _, o, _, _ in table[-40:]}
    for y in range(sy, uy):
        for (mo, d, h, mi) in [(m, 1, 0, 0) for m in range(1, 13)] + [(12, 31, 23, 59)]:
            c["samples_expected"] = c.get("samples_expected", 0) + 1
            wall = dt.datetime(y, mo, d, h, mi, 0)
            wall_utc = int(wall.replace(tzinfo=UTC).timestamp())
            cands = []
            for off in offsets:
                t = wall_utc - off
                f = fields_at(tz, t - EPOCH_SHIFT)
                if (f.year, f.month, f.day, f.hour, f.minute) == (y, mo, d, h, mi):
                    cands.append(t - EPOCH_SHIFT)
            if cands:
                if not any(t in by_epoch for t in cands):
                    out["witnesses"].append({"key": "c19:sample-missing", "what": "a monthly / year-end sample is missing", "config": cfg,
                                             "wall": wall.isoformat(), "candidates": cands})
                    break
            else:
                c["samples_in_gap_not_judged"] = c.get("samples_in_gap_not_judged", 0) + 1
    if len(out["samples"]) < 2 and items:
        out["samples"].append({"config": cfg, "items": len(items), "first_pair": [it for it in items if it["type"] in "AB"][:2]})
    if cfg.get("keep_items"):
        out.setdefault("data", {})[zone] = items


def main():
    work = json.loads(Path(sys.argv[1]).read_text())
    out = {"witnesses": [], "counters": {}, "samples": []}
    for cfg in work["configs"]:
        try:
            check_config(cfg, out)
        except BaseException as e:  # noqa  machinery problems are reported, not turned into violations
            out.setdefault("machinery_errors", []).append({"config": cfg, "error": repr(e)[:300]})
    Path(sys.argv[2]).write_text(json.dumps(out, default=str))


if __name__ == "__main__":
    main()
