#!/venv/bin/python
"""Fill the calibration and seeded-change tables of DESIGN.md from calibration/results.json and seeded/*/meta.json."""
import json
import re
from pathlib import Path
V = Path(__file__).resolve().parent.parent
s = (V / "DESIGN.md").read_text()
rows = ["| id | change | checks: outcome |", "|---|---|---|"]
rp = V / "calibration" / "results.json"
if rp.exists():
    for r in json.loads(rp.read_text()):
        o = r["outcome"]
        rows.append("| %s | %s | %s |" % (r["id"], (r["desc"] or "").replace("|", "/"),
                                          ", ".join("%s: %s" % (k, v) for k, v in o.items()) if isinstance(o, dict) else str(o)))
    n = sum(1 for r in json.loads(rp.read_text()) if isinstance(r["outcome"], dict) and r["outcome"] and all(v == "CAUGHT" for v in r["outcome"].values()))
    rows.append("")
    rows.append("%d of %d catalogue entries caught by every check named for them (quick tier)." % (n, len(json.loads(rp.read_text()))))
s = re.sub(r"<!-- CALIBRATION-TABLE-BEGIN -->.*?<!-- CALIBRATION-TABLE-END -->",
           lambda m: "<!-- CALIBRATION-TABLE-BEGIN -->\n" + "\n".join(rows) + "\n<!-- CALIBRATION-TABLE-END -->", s, flags=re.S)
rows = ["| seeded id | property | change (summary) | needs | checks |", "|---|---|---|---|---|"]
for d in sorted((V / "seeded").iterdir()):
    m = json.loads((d / "meta.json").read_text())
    rows.append("| %s | %s | %s | %s | %s |" % (d.name, m["property"], (m.get("summary") or "")[:220].replace("|", "/").replace("\n", " "),
                                               (m.get("needs") or "")[:200].replace("|", "/").replace("\n", " "),
                                               "; ".join("%s: %s" % (k, v) for k, v in m["checks_run"].items()).replace("|", "/")))
s = re.sub(r"<!-- SEEDED-TABLE-BEGIN -->.*?<!-- SEEDED-TABLE-END -->",
           lambda m: "<!-- SEEDED-TABLE-BEGIN -->\n" + "\n".join(rows) + "\n<!-- SEEDED-TABLE-END -->", s, flags=re.S)
(V / "DESIGN.md").write_text(s)
print("tables written")
