#!/venv/bin/python
"""One C03 program per process: builds the source, runs c03lib.check_program, dumps JSON.

usage: c03worker.py <kind> <out.json> [--seed S] [--index I] [--grid G] [--nbhd N] [--san]
kinds: recon-x | recon-b | tz2025b | tz2025b-raw | mutant
"""
import argparse
import json
import random
import sys
import traceback
from pathlib import Path

HERE = Path(__file__).resolve().parent
sys.path.insert(0, str(HERE))
import c03lib  # noqa: E402
import tzpipe  # noqa: E402
import tzsrc  # noqa: E402
import vlib  # noqa: E402
import zicoracle  # noqa: E402


def recon(db):
    zones, rules, links = zicoracle.reconstruct_source(vlib.REPO / "src" / "ace_time" / db)
    text = zicoracle.source_text(zones, rules, links, split=False)
    return tzsrc.parse_long(text)


def tz2025b(normalise):
    p = tzsrc.parse_long(tzsrc.expand_zi((vlib.VERIF / "data" / "tzdata-2025b.zi").read_text()))
    left = []
    if normalise:
        _, left = tzsrc.rewrite_percent_z(p)
    return p, {z for z, _ in left}


def unsupported():
    """Hand-written source of zic-accepted constructs the compiler documents as unsupported (data/unsupported.zi)."""
    return tzsrc.parse_long((vlib.VERIF / "data" / "unsupported.zi").read_text())


def features():
    """Hand-written source with features real tzdata rarely shows after 2000 (data/features.zi)."""
    return tzsrc.parse_long((vlib.VERIF / "data" / "features.zi").read_text())


def mutant(seed, index):
    rng = random.Random(seed * 100003 + index)
    base_kind = rng.choice(["recon-x", "tz2025b", "tz2025b", "recon-b"])
    if base_kind.startswith("recon"):
        p = recon("zonedbx" if base_kind == "recon-x" else "zonedb")
    else:
        p, _ = tz2025b(True)
        # zones still carrying %z are a known mechanism of their own: keep them out of mutants
        for z in [z for z, eras in p["zones"].items() if any('%z' in e[2] for e in eras)]:
            del p["zones"][z]
    # prefer zones with named rules: that is where the interpreter works hardest
    ruled = [z for z, eras in p["zones"].items() if any(e[1] not in ('-',) and ':' not in e[1] for e in eras)]
    k = rng.randrange(5, 25)
    names = rng.sample(ruled, min(k, len(ruled))) + rng.sample(sorted(p["zones"]), 4)
    q = tzsrc.subset(p, set(names))
    desc = tzsrc.mutate(q, rng, n_edits=rng.choice([1, 1, 2, 2, 3]))
    ranges = [(2000, 2050), (2000, 2050), (2000, 2038), (2010, 2030)]
    sy, uy = rng.choice(ranges)
    return q, desc, base_kind, sy, uy


def main():
    ap = argparse.ArgumentParser()
    ap.add_argument("kind")
    ap.add_argument("out")
    ap.add_argument("--seed", type=int, default=0)
    ap.add_argument("--index", type=int, default=0)
    ap.add_argument("--grid", type=int, default=15)
    ap.add_argument("--nbhd", type=int, default=120)
    ap.add_argument("--san", action="store_true")
    ap.add_argument("--pygrid", type=int, default=6 * 3600 + 1800)
    ap.add_argument("--targets", default="python,arduino")
    ap.add_argument("--granularity", type=int, default=0, help="compile with --until_at_granularity / --offset_granularity of this many seconds")
    ap.add_argument("--strict", action="store_true", help="compile with the compiler's --strict option (misaligned values remove the zone instead of truncating it)")
    a = ap.parse_args()
    tzpipe.attach_contracts()
    v = vlib.Verdict("C03", "quick", "translation_validation")
    st = {}
    info = {"kind": a.kind, "index": a.index}
    work = vlib.scratch()
    try:
        targets = tuple(a.targets.split(","))
        if a.kind == "recon-x":
            c03lib.check_program(v, "recon-zonedbx", recon("zonedbx"), work, stats=st, grid=a.grid, nbhd=a.nbhd, py_grid_s=a.pygrid, san=a.san, targets=targets)
        elif a.kind == "recon-b":
            c03lib.check_program(v, "recon-zonedb", recon("zonedb"), work, scopes=("basic",), stats=st, grid=a.grid, nbhd=a.nbhd, py_grid_s=a.pygrid, san=a.san, targets=targets)
        elif a.kind == "features":
            c03lib.check_program(v, "features" + ("+strict" if a.strict else "") + ("+granularity%d" % a.granularity if a.granularity else ""), features(), work, stats=st, grid=a.grid, nbhd=a.nbhd, py_grid_s=a.pygrid, san=a.san, targets=targets, strict=a.strict, granularity=a.granularity or None)
        elif a.kind == "unsupported":
            c03lib.check_program(v, "unsupported-constructs" + ("+strict" if a.strict else "") + ("+granularity%d" % a.granularity if a.granularity else ""), unsupported(), work, stats=st, grid=a.grid, nbhd=a.nbhd, py_grid_s=a.pygrid, san=a.san, targets=targets, strict=a.strict, granularity=a.granularity or None)
        elif a.kind == "tz2025b":
            p, pz = tz2025b(True)
            info["percent_z_zones_left"] = sorted(pz)
            c03lib.check_program(v, "tzdata-2025b-normalised" + ("+strict" if a.strict else ""), p, work, stats=st, grid=a.grid, nbhd=a.nbhd, py_grid_s=a.pygrid, expect_percent_z=pz,
                                 selfcheck_zones=None, san=a.san, targets=targets, strict=a.strict)
        elif a.kind == "tz2025b-raw":
            p, _ = tz2025b(False)
            pz = {z for z, eras in p["zones"].items() if any('%z' in e[2] for e in eras)}
            c03lib.check_program(v, "tzdata-2025b-raw", p, work, stats=st, grid=a.grid, nbhd=a.nbhd, py_grid_s=a.pygrid, expect_percent_z=pz,
                                 selfcheck_zones=None, san=a.san, targets=targets)
        elif a.kind == "mutant":
            q, desc, base, sy, uy = mutant(a.seed, a.index)
            info.update({"edits": desc, "base": base, "zones": len(q["zones"]), "years": [sy, uy],
                         "source": tzsrc.render_long(q) if len(q["zones"]) < 40 else None})
            try:
                c03lib.check_program(v, "mutant-%d-%d" % (a.seed, a.index), q, work, stats=st, grid=a.grid, nbhd=a.nbhd, py_grid_s=a.pygrid,
                                     start_year=sy, until_year=uy, selfcheck_zones=4, san=a.san, targets=targets)
            except c03lib.Rejected as e:
                info["rejected_by_zic"] = str(e)[:300]
            except zicoracle.OracleError as e:
                # the oracle's two independent readers (own TZif reader on the era-split source, CPython zoneinfo on the
                # unsplit source) disagree on this mutant: it cannot be judged; discarded and counted, like a zic rejection
                info["oracle_unsure"] = str(e)[:300]
                v.violations[:] = []
        else:
            raise SystemExit("unknown kind")
        info["contract_evals"] = dict(tzpipe.CONTRACT_EVALS)
        out = {"violations": v.violations, "inconclusive": v.inconclusive, "stats": st, "info": info}
    except zicoracle.OracleError as e:
        out = {"violations": [], "inconclusive": ["oracle: %s" % e], "stats": st, "info": info}
    except BaseException:  # machinery failure: inconclusive, never a violation
        out = {"violations": [], "inconclusive": ["worker machinery error: " + traceback.format_exc()[-1500:]], "stats": st, "info": info}
    Path(a.out).write_text(json.dumps(out, default=vlib._jd))


if __name__ == "__main__":
    main()
