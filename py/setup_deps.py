#!/venv/bin/python
"""MANIFEST.setup_cmd: install the offline wheels the monitors use into the git-ignored /verif/.deps."""
import sys
from pathlib import Path
sys.path.insert(0, str(Path(__file__).resolve().parent))
import vlib
vlib.ensure_deps()
import icontract, deal, jsonschema  # noqa
print("deps ok:", icontract.__version__, jsonschema.__version__)
