"""TZ source tooling independent of tools/tzdb/extractor.py (C03 programs and name lists).

* expand_zi():     zic's compact dialect (tzdata.zi) -> the long dialect of the upstream region files
* rewrite_percent_z(): %z FORMATs -> literal abbreviations the way tzdata's rearguard conversion does
* parse_long():    zone / link / rule names and lines of a long-dialect text (for accounting + mutation)
* mutate():        bounded, seed-driven edits that stay inside the documented feature set
"""
import random
import re

MONTHS = ['Jan', 'Feb', 'Mar', 'Apr', 'May', 'Jun', 'Jul', 'Aug', 'Sep', 'Oct', 'Nov', 'Dec']
FULL_MONTHS = ['January', 'February', 'March', 'April', 'May', 'June', 'July', 'August', 'September', 'October',
               'November', 'December']
DAYS = ['Mon', 'Tue', 'Wed', 'Thu', 'Fri', 'Sat', 'Sun']
FULL_DAYS = ['Monday', 'Tuesday', 'Wednesday', 'Thursday', 'Friday', 'Saturday', 'Sunday']


def _unique_prefix(tok, full_names, short_names):
    hits = [i for i, n in enumerate(full_names) if n.lower().startswith(tok.lower())]
    if len(hits) != 1:
        raise ValueError("ambiguous or unknown name %r" % tok)
    return short_names[hits[0]]


def _month(tok):
    return _unique_prefix(tok, FULL_MONTHS, MONTHS)


def _on(tok):
    if tok.isdigit():
        return tok
    if tok.startswith('last'):
        return 'last' + _unique_prefix(tok[4:], FULL_DAYS, DAYS)
    m = re.match(r'^([A-Za-z]+)([<>]=)(\d+)$', tok)
    if not m:
        raise ValueError("bad ON %r" % tok)
    return _unique_prefix(m.group(1), FULL_DAYS, DAYS) + m.group(2) + m.group(3)


def _to(tok):
    if 'only'.startswith(tok) and tok:
        return 'only'
    if 'maximum'.startswith(tok) and len(tok) >= 2:
        return 'max'
    return tok


def _rules_field(tok):
    # a bare-hour fixed SAVE such as `1` must read `1:00`: the compiler recognises fixed offsets by the colon
    if re.match(r'^-?\d+$', tok):
        return tok + ':00'
    return tok


def _until(fields):
    out = list(fields)
    if len(out) >= 2:
        out[1] = _month(out[1])
    if len(out) >= 3:
        out[2] = _on(out[2])
    return out


def _zone_fields(f):
    """f = [STDOFF, RULES, FORMAT, UNTIL...]"""
    return [f[0], _rules_field(f[1]), f[2]] + _until(f[3:])


def expand_zi(text):
    """Purely lexical expansion of the compact dialect.  Returns long-dialect text."""
    out = []
    for raw in text.splitlines():
        ln = raw.split('#', 1)[0].rstrip()
        if not ln.strip():
            continue
        f = ln.split()
        if f[0] == 'R':
            out.append(' '.join(['Rule', f[1], f[2], _to(f[3]), f[4], _month(f[5]), _on(f[6]), f[7], f[8], f[9]]))
        elif f[0] == 'Z':
            out.append('Zone ' + f[1] + ' ' + ' '.join(_zone_fields(f[2:])))
        elif f[0] == 'L':
            out.append('Link %s %s' % (f[1], f[2]))
        else:
            out.append('\t\t\t' + ' '.join(_zone_fields(f)))
    return '\n'.join(out) + '\n'


# --------------------------------------------------------------------------- parsing of the long dialect
def hms_to_seconds(s):
    sign = -1 if s.startswith('-') else 1
    s = s.lstrip('-')
    p = [int(x) for x in s.split(':')]
    while len(p) < 3:
        p.append(0)
    return sign * (p[0] * 3600 + p[1] * 60 + p[2])


def parse_long(text):
    """-> dict(zones={name: [era fields list]}, links={link: target}, rules={name: [rule fields]}, order=[...])"""
    zones, links, rules = {}, {}, {}
    earlier_links = []        # (target, link) of Link lines that a LATER line for the same name overrides (zic: last wins)
    cur = None
    for raw in text.splitlines():
        ln = raw.split('#', 1)[0].rstrip()
        if not ln.strip():
            continue
        f = ln.split()
        if f[0] == 'Rule':
            rules.setdefault(f[1], []).append(f[2:])
            cur = None
        elif f[0] == 'Link':
            if f[2] in links:
                earlier_links.append((links[f[2]], f[2]))
            links[f[2]] = f[1]
            cur = None
        elif f[0] == 'Zone':
            cur = f[1]
            zones[cur] = [f[2:]]
        elif cur is not None:
            zones[cur].append(f)
    out = {"zones": zones, "links": links, "rules": rules}
    if earlier_links:
        out["earlier_links"] = earlier_links
    return out


def render_long(p):
    out = []
    for name in p["rules"]:
        for r in p["rules"][name]:
            out.append('Rule %s %s' % (name, ' '.join(r)))
    for name, eras in p["zones"].items():
        for i, e in enumerate(eras):
            out.append(('Zone %s ' % name if i == 0 else '\t\t\t') + ' '.join(e))
    for target, link in p.get("earlier_links", []):
        if link in p["links"]:
            out.append('Link %s %s' % (target, link))      # overridden by the line below; kept so that the text stays the same source
    for link, target in p["links"].items():
        out.append('Link %s %s' % (target, link))
    return '\n'.join(out) + '\n'


def _fmt_offset(secs):
    sign = '-' if secs < 0 else '+'
    a = abs(secs)
    h, m, s = a // 3600, a // 60 % 60, a % 60
    if s:
        return '%s%02d%02d%02d' % (sign, h, m, s)
    if m:
        return '%s%02d%02d' % (sign, h, m)
    return '%s%02d' % (sign, h)


def rewrite_percent_z(p):
    """Replace %z FORMATs by literal abbreviations (what tzdata's rearguard data does):
    fixed eras -> +hh[mm]; named-rule eras -> STD/DST when every non-zero SAVE of the policy is the same.
    Returns (count_rewritten, list of (zone, era_index) left untouched)."""
    n = 0
    left = []
    for zname, eras in p["zones"].items():
        for i, e in enumerate(eras):
            if '%z' not in e[2]:
                continue
            std = hms_to_seconds(e[0])
            r = e[1]
            if r == '-':
                e[2] = e[2].replace('%z', _fmt_offset(std))
                n += 1
            elif ':' in r or re.match(r'^-?\d+$', r):
                e[2] = e[2].replace('%z', _fmt_offset(std + hms_to_seconds(r)))
                n += 1
            else:
                # rules that can be in force during this era: those overlapping [start year - 1, until year],
                # plus the latest one ending before the era starts (it supplies the initial state)
                y0 = int(eras[i - 1][3]) - 1 if i > 0 and len(eras[i - 1]) > 3 else 0
                y1 = int(e[3]) if len(e) > 3 else 9999
                saves = set()
                prior = None
                for rule in p["rules"].get(r, []):
                    fy = int(rule[0])
                    ty = fy if rule[1] == 'only' else (9999 if rule[1] == 'max' else int(rule[1]))
                    s = hms_to_seconds(rule[6].rstrip('sd'))
                    if fy <= y1 and ty >= y0:
                        if s:
                            saves.add(s)
                    elif ty < y0 and (prior is None or ty > prior[0]):
                        prior = (ty, s)
                if prior and prior[1]:
                    saves.add(prior[1])
                if len(saves) == 1 and e[2] == '%z':
                    e[2] = '%s/%s' % (_fmt_offset(std), _fmt_offset(std + saves.pop()))
                    n += 1
                elif not saves and e[2] == '%z':
                    e[2] = _fmt_offset(std)
                    n += 1
                else:
                    left.append((zname, i))
    return n, left


# --------------------------------------------------------------------------- mutation operators
def _rand_until_time(rng):
    """UNTIL times get an explicit s/u/g/z suffix: a wall-clock UNTIL that falls into the gap/overlap of a rule
    transition of the same night has no agreed meaning (zic's own reading depends on its processing order)."""
    t = _rand_time(rng, allow_suffix=False)
    return t + rng.choice(['s', 'u', 's', 'u', 'g', 'z'])


def _rand_time(rng, allow_suffix=True, max_hour=25):
    h = rng.choice([0, 0, 1, 2, 2, 3, 4, 12, 23, 24, max_hour]) if rng.random() < 0.7 else rng.randrange(0, max_hour + 1)
    m = 0 if h >= 25 else rng.choice([0, 0, 0, 30, 1, 59, 15, 45, rng.randrange(60)])
    s = '%d:%02d' % (h, m)
    if allow_suffix:
        s += rng.choice(['', '', '', 's', 'u', 'w', 'g', 'z'])
    return s


def _rand_on(rng):
    k = rng.random()
    if k < 0.3:
        return str(rng.randrange(1, 29))
    if k < 0.55:
        return 'last' + rng.choice(DAYS)
    if k < 0.85:
        return rng.choice(DAYS) + '>=' + str(rng.choice([1, 2, 8, 15, 22, 25, rng.randrange(1, 29)]))
    return rng.choice(DAYS) + '<=' + str(rng.choice([7, 14, 21, 25, 28, rng.randrange(7, 29)]))


def mutate(p, rng, n_edits=2):
    """Apply n_edits random edits to a parsed source (in place).  Returns a description list."""
    desc = []
    znames = list(p["zones"])
    rnames = [r for r in p["rules"] if p["rules"][r]]
    for _ in range(n_edits):
        op = rng.choice(['rule-at', 'rule-on', 'rule-years', 'rule-save', 'rule-letter', 'era-stdoff', 'era-until-time',
                         'era-split', 'rule-add', 'rule-del', 'link-retarget', 'era-fixed-save', 'rule-month'])
        try:
            if op.startswith('rule-') and op not in ('rule-add',) and not rnames:
                continue
            if op == 'rule-at':
                r = rng.choice(p["rules"][rng.choice(rnames)])
                r[5] = _rand_time(rng)
                desc.append('AT=' + r[5])
            elif op == 'rule-on':
                r = rng.choice(p["rules"][rng.choice(rnames)])
                r[4] = _rand_on(rng)
                desc.append('ON=' + r[4])
            elif op == 'rule-month':
                r = rng.choice(p["rules"][rng.choice(rnames)])
                r[3] = rng.choice(MONTHS)
                desc.append('IN=' + r[3])
            elif op == 'rule-years':
                r = rng.choice(p["rules"][rng.choice(rnames)])
                y = rng.randrange(1995, 2045)
                r[0] = str(y)
                r[1] = rng.choice(['only', 'max', str(y + rng.randrange(0, 12))])
                desc.append('FROM/TO=%s/%s' % (r[0], r[1]))
            elif op == 'rule-save':
                r = rng.choice(p["rules"][rng.choice(rnames)])
                r[6] = rng.choice(['0', '1:00', '1:00', '0:30', '2:00', '-1:00', '0:45', '1:30', '2:45', '0:15'])   # documented set: 15-minute steps
                desc.append('SAVE=' + r[6])
            elif op == 'rule-letter':
                r = rng.choice(p["rules"][rng.choice(rnames)])
                r[7] = rng.choice(['-', 'S', 'D', 'DD', 'ST', 'M', 'W'])   # keeps abbreviations within the 6 characters TZ allows
                desc.append('LETTER=' + r[7])
            elif op == 'era-stdoff':
                e = rng.choice(p["zones"][rng.choice(znames)])
                base = hms_to_seconds(e[0]) // 60
                base += rng.choice([-60, -30, -15, -1, 1, 15, 30, 60, 45])
                sign = '-' if base < 0 else ''
                e[0] = '%s%d:%02d' % (sign, abs(base) // 60, abs(base) % 60)
                desc.append('STDOFF=' + e[0])
            elif op == 'era-until-time':
                cands = [e for z in znames for e in p["zones"][z] if len(e) >= 6 or len(e) == 5]
                if not cands:
                    continue
                e = rng.choice(cands)
                t = _rand_until_time(rng)
                if len(e) >= 7:
                    e[6] = t
                elif len(e) == 6:
                    e.append(t)
                else:
                    e.extend(['1', t])
                desc.append('UNTIL-time=' + t)
            elif op == 'era-split':
                z = rng.choice(znames)
                eras = p["zones"][z]
                last = eras[-1]
                if len(last) != 3:
                    continue
                prev_until = int(eras[-2][3]) if len(eras) >= 2 else 1990
                y = rng.randrange(max(prev_until + 1, 2001), 2046)
                until = [str(y)]
                if rng.random() < 0.7:
                    until += [rng.choice(MONTHS), _rand_on(rng) if rng.random() < 0.3 else str(rng.randrange(1, 29))]
                    if rng.random() < 0.6:
                        until.append(_rand_until_time(rng))
                new_last = list(last)
                if rng.random() < 0.5:
                    base = hms_to_seconds(last[0]) // 60 + rng.choice([-60, 60, 30, -30])
                    new_last[0] = '%s%d:%02d' % ('-' if base < 0 else '', abs(base) // 60, abs(base) % 60)
                eras[-1] = last[:3] + until
                eras.append(new_last)
                desc.append('split %s at %s' % (z, ' '.join(until)))
            elif op == 'rule-add':
                if not rnames:
                    continue
                name = rng.choice(rnames)
                y = rng.randrange(2000, 2045)
                p["rules"][name].append([str(y), rng.choice(['only', 'max', str(y + 3)]), '-', rng.choice(MONTHS), _rand_on(rng),
                                         _rand_time(rng), rng.choice(['0', '1:00']), rng.choice(['S', 'D', '-'])])
                desc.append('add rule to ' + name)
            elif op == 'rule-del':
                name = rng.choice(rnames)
                if len(p["rules"][name]) > 1:
                    del p["rules"][name][rng.randrange(len(p["rules"][name]))]
                    desc.append('delete a rule of ' + name)
            elif op == 'link-retarget':
                if p["links"]:
                    l = rng.choice(list(p["links"]))
                    p["links"][l] = rng.choice(znames)
                    desc.append('retarget link ' + l)
            elif op == 'era-fixed-save':
                e = rng.choice(p["zones"][rng.choice(znames)])
                if e[1] == '-' and '%' not in e[2]:
                    e[1] = rng.choice(['1:00', '0:30', '2:00', '-1:00', '0:45'])
                    desc.append('fixed SAVE ' + e[1])
        except (IndexError, ValueError):
            continue
    return desc


def subset(p, names):
    """Restrict a parsed source to `names` (zones) plus the rules and links they need."""
    zones = {n: [list(e) for e in p["zones"][n]] for n in sorted(names) if n in p["zones"]}   # sorted: independent of the hash seed
    used = {e[1] for eras in zones.values() for e in eras}
    rules = {r: [list(x) for x in v] for r, v in p["rules"].items() if r in used}
    links = {l: t for l, t in p["links"].items() if t in zones}
    return {"zones": zones, "links": links, "rules": rules}


def split_for_zic(p, split_year=2051):
    """Text for zic with the last era of each zone cut at split_year (DESIGN 2.3)."""
    q = {"zones": {}, "links": dict(p["links"]), "rules": p["rules"]}
    for z, eras in p["zones"].items():
        eras = [list(e) for e in eras]
        last = eras[-1]
        if len(last) == 3:
            eras[-1] = last + [str(split_year)]
            eras.append(list(last))
        q["zones"][z] = eras
    return render_long(q)
