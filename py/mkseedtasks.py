#!/venv/bin/python
"""Prepare one round of sub-agent tasks: per property a scratch worktree of /repo, the property text and a task file listing
one-line summaries of every earlier seeded change for that property (so the agent does not repeat one).
usage: mkseedtasks.py SUFFIX C01 C02 ...      (writes /tmp/seed/out/<ID>.task.txt, creates /tmp/seed/<ID>)"""
import json
import subprocess
import sys
from pathlib import Path
V = Path(__file__).resolve().parent.parent
suffix, props = sys.argv[1], sys.argv[2:]
_t = Path("/tmp/seed/prompt_tmpl.txt")
tmpl = (_t if _t.exists() else Path(__file__).with_name("seed_prompt_tmpl.txt")).read_text()
texts = {}
for ln in (V / "properties.jsonl").read_text().splitlines():
    if ln.strip():
        d = json.loads(ln)
        texts[d["id"]] = d
FOCUS = ("you choose. Read the property sentence by sentence: each clause is a separate promise, and the words 'every' / 'any' / 'always' in it are to be "
         "taken literally. Then read ALL the code it is anchored in (C++ under src/ace_time incl. internal/, clock/, common/, testing/; Python under tools/ "
         "incl. tzcompiler.py, tzdb/, zonedb/, validation/, compare_*/) and pick a clause, a spot and a failure that a reviewer would plausibly wave through. "
         "It MUST be a clause / code path that is NOT among the following, which other people already did (do not produce a variation of any of them):\n%s\n"
         "  Method: list the functions and data the property depends on, cross off the ones above, and pick from what is left - preferably something whose "
         "failure needs TWO conditions at once (an option AND a kind of data; a call order AND a boundary value; a scope AND a field value). "
         "Unusual-but-legal inputs are fair game (boundary years, negative values, extreme ids/indices, empty collections, zones with unusual data, rarely "
         "used overloads / factory methods / template parameters, option combinations and command-line flags of the Python tools, second call vs first "
         "call, long idle periods, values near integer limits).")
for p in props:
    ID = p + suffix
    prior = []
    for d in sorted((V / "seeded").iterdir()):
        m = json.loads((d / "meta.json").read_text())
        if m["property"] == p:
            prior.append("   - " + (m.get("summary") or "").replace("\n", " ")[:160])
    out = Path("/tmp/seed/out")
    out.mkdir(parents=True, exist_ok=True)
    (out / (ID + ".prop.txt")).write_text(texts[p]["title"] + "\n\n" + texts[p]["statement"] + "\n")
    (out / ID).mkdir(exist_ok=True)
    (out / (ID + ".task.txt")).write_text(tmpl.replace("@FOCUS@", FOCUS % "\n".join(prior)).replace("@ID@", ID).replace("@P@", p))
    subprocess.run(["git", "-C", "/repo", "worktree", "add", "--detach", "-q", "/tmp/seed/" + ID, "HEAD"], check=True)
    print(ID, len(prior), "earlier changes listed")
