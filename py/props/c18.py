"""C18 - rule-day resolution (lastSun, Sun>=8, Fri<=1) agrees in C++, Python and the calendar."""
import calendar
import datetime as dt
import importlib
import io
import logging
import struct
import sys

import vlib
from vlib import REPO, VERIF, Verdict, build, run_shards

DAYS = ['Mon', 'Tue', 'Wed', 'Thu', 'Fri', 'Sat', 'Sun']


def all_on_strings():
    out = [str(n) for n in range(1, 32)]
    out += ['last' + d for d in DAYS]
    out += ['%s>=%d' % (d, n) for d in DAYS for n in range(1, 32)]
    out += ['%s<=%d' % (d, n) for d in DAYS for n in range(1, 32)]
    return out


def oracle(year, month, dow, dom):
    """Calendar answer as a date, or None when the expression names a day the month does not have."""
    dim = calendar.monthrange(year, month)[1]
    if dow == 0:
        return dt.date(year, month, dom) if 1 <= dom <= dim else None
    if dom == 0:          # last weekday of the month
        d = dt.date(year, month, dim)
        while d.isoweekday() != dow:
            d -= dt.timedelta(days=1)
        return d
    if dom > 0:
        if dom > dim:
            return None
        d = dt.date(year, month, dom)
        while d.isoweekday() != dow:
            d += dt.timedelta(days=1)
        return d
    if -dom > dim:
        return None
    d = dt.date(year, month, -dom)
    while d.isoweekday() != dow:
        d -= dt.timedelta(days=1)
    return d


def run(tier):
    v = Verdict("C18", tier)
    sys.path.insert(0, str(REPO / "tools"))
    tr = importlib.import_module("tzdb.transformer")
    logging.getLogger().setLevel(logging.CRITICAL + 1)
    # ---- admission predicate, executed: the real pass on one synthetic policy per (ON string, month)
    ons = all_on_strings()
    rules_map = {}
    for on in ons:
        for month in range(1, 13):
            rules_map["%s@%d" % (on, month)] = [{'fromYear': 2000, 'toYear': 2010, 'inMonth': month, 'onDay': on, 'atTime': '2:00',
                                                 'atTimeSuffix': 'w', 'deltaOffset': '1:00', 'letter': 'D', 'rawLine': 'synthetic'}]
    # grammar edge cases that must be rejected, not mis-parsed
    bad_strings = ['lastXyz', 'Sun>8', 'Sun=8', 'Sunday>=8', 'last', 'Xyz<=3', '0x10', 'Sun', '>=5']
    for on in bad_strings:
        rules_map["%s@%d" % (on, 3)] = [{'fromYear': 2000, 'toYear': 2010, 'inMonth': 3, 'onDay': on, 'atTime': '2:00', 'atTimeSuffix': 'w',
                                         'deltaOffset': '1:00', 'letter': 'D', 'rawLine': 'synthetic'}]
    t = tr.Transformer({}, dict(rules_map), {}, 'extended', 2000, 2050, 60, 60, False)
    import io
    old = sys.stderr
    sys.stderr = io.StringIO()
    try:
        try:
            kept = t._create_rules_with_on_day_expansion(dict(rules_map))
        except BaseException as e:  # noqa
            sys.stderr = old
            v.violation("c18:admission-pass-raises:%s" % type(e).__name__, "the ON-day expansion pass raised on a grammar edge case",
                        {"error": repr(e)[:300]})
            # retry without the edge strings so that the main comparison still runs
            for on in bad_strings:
                rules_map.pop("%s@%d" % (on, 3), None)
            t = tr.Transformer({}, dict(rules_map), {}, 'extended', 2000, 2050, 60, 60, False)
            sys.stderr = io.StringIO()
            kept = t._create_rules_with_on_day_expansion(dict(rules_map))
    finally:
        sys.stderr = old
    for on in bad_strings:
        if "%s@%d" % (on, 3) in kept:
            v.violation("c18:malformed-on-admitted", "a malformed ON string was admitted", {"on": on})
    admitted = []
    for name, rules in kept.items():
        r = rules[0]
        if name.split('@')[0] in bad_strings:
            continue
        admitted.append((r['onDay'], r['inMonth'], r['onDayOfWeek'], r['onDayOfMonth']))
    rejected = len(rules_map) - len(kept)
    # the parser's reading of each admitted string must match the grammar
    for on, month, dow, dom in admitted:
        if on.isdigit():
            want = (0, int(on))
        elif on.startswith('last'):
            want = (DAYS.index(on[4:]) + 1, 0)
        elif '>=' in on:
            want = (DAYS.index(on[:3]) + 1, int(on[5:]))
        else:
            want = (DAYS.index(on[:3]) + 1, -int(on[5:]))
        if (dow, dom) != want:
            v.violation("c18:on-string-misparsed", "ON string parsed into the wrong (weekday, day)", {"on": on, "got": [dow, dom], "want": list(want)})
    # ---- cases
    years = range(1873, 2128)      # every year LocalDate represents (the compiler admits 1872..2127 as concrete rule years)
    cases = []
    for on, month, dow, dom in admitted:
        for y in years:
            cases.append((y, month, dow, dom, on))
    work = vlib.scratch()
    fin, fout = work / "cases.bin", work / "out.bin"
    with open(fin, "wb") as f:
        for y, m, dow, dom, on in cases:
            f.write(struct.pack("<hBBb", y, m, dow, dom))
    exe = build(VERIF / "native" / "calendar.cpp", "sanrec")
    r = run_shards(exe, [["--mode", "c18", "--in", fin, "--out", fout]], san="rec", timeout=1800)
    v.absorb(r, "c18(c++)")
    cpp = fout.read_bytes() if fout.exists() else b""
    if len(cpp) != 2 * len(cases):
        v.inconclusive_because("C++ side answered %d of %d cases" % (len(cpp) // 2, len(cases)))
    n = 0
    spill = 0
    skipped_invalid = 0
    distinct = set()
    samples = []
    for i, (y, m, dow, dom, on) in enumerate(cases):
        if 2 * i + 1 >= len(cpp):
            break
        o = oracle(y, m, dow, dom)
        if o is None:
            skipped_invalid += 1
            continue
        n += 1
        distinct.add((m, dow, dom))
        py = tr.calc_day_of_month(y, m, dow, dom)
        cm, cd = cpp[2 * i], cpp[2 * i + 1]
        case = {"year": y, "month": m, "on": on, "python": list(py), "cpp": [cm, cd], "calendar": o.isoformat()}
        if o.year != y:
            spill += 1
            v.violation("c18:admitted-expression-resolves-into-another-year",
                        "the compiler admits an ON expression that can resolve across a year boundary", case)
            continue
        if tuple(py) != (cm, cd):
            v.violation("c18:cpp-python-disagree", "C++ calcStartDayOfMonth and Python calc_day_of_month disagree", case)
        elif (o.month, o.day) != tuple(py):
            v.violation("c18:differs-from-calendar", "resolved (month, day) is not the calendar's answer", case)
        if len(samples) < 5 and i % 200003 == 7:
            samples.append(case)
    # ---- the day the processors APPLY: the same cases of 2000..2049 as in-memory zones through both processors
    fapply = work / "apply.bin"
    n_apply = 0
    with open(fapply, "wb") as f:
        for y, m, dow, dom, on in cases:
            if 2000 <= y < 2050:
                o = oracle(y, m, dow, dom)
                if o is not None and o.year == y and not (o.month == 1 and o.day == 1) and not (o.month == 12 and o.day == 31):
                    f.write(struct.pack("<hBBbBB", y, m, dow, dom, o.month, o.day))
                    n_apply += 1
    NSH = 16
    ra = run_shards(exe, [["--mode", "c18apply", "--in", fapply, "--shard", "%d/%d" % (i, NSH)] for i in range(NSH)], san="rec", timeout=1800)
    v.absorb(ra, "c18apply")
    applied = ra.counters.get("c18.applied_cases", 0)
    if applied != 2 * n_apply:
        v.inconclusive_because("the processors were asked %d of %d applied-day cases" % (applied, 2 * n_apply))
    # ---- the same expressions in the UNTIL column of a Zone line: there the year is known, the compiler resolves the day itself
    #      (Transformer._create_zones_with_until_day) and must reject a day that falls into another year
    until_cases = until_kept = until_rejected = 0
    zones_map, parsed = {}, {}
    for on in ons:
        try:
            pd = tr._parse_on_day_string(on)
        except BaseException:  # noqa
            continue
        if pd == (0, 0):
            continue
        for month in (1, 2, 3, 6, 11, 12):
            for y in range(2000, 2029):       # 28 years: every weekday alignment, leap and non-leap
                o = oracle(y, month, pd[0], pd[1])
                if o is None:
                    continue                  # names a day the month does not have: outside zic's input language
                zn = "U/%s@%d@%d" % (on, month, y)
                # as in a real Zone: the era with the expression is followed by later eras (the last one without UNTIL), and in
                # every third zone preceded by an earlier one - the verdict on one era must not be undone by its neighbours
                final = {'untilYear': 10000, 'untilMonth': 1, 'untilDayString': '1', 'untilDay': None}
                eras_ = [{'untilYear': y, 'untilMonth': month, 'untilDayString': on, 'untilDay': None}, final]
                if (y + month) % 3 == 0:
                    eras_.insert(0, {'untilYear': y - 1, 'untilMonth': 6, 'untilDayString': '15', 'untilDay': None})
                zones_map[zn] = eras_
                parsed[zn] = (y, month, on, o)
    t2 = tr.Transformer(dict(zones_map), {}, {}, 'extended', 2000, 2050, 60, 60, False)
    old = sys.stderr
    sys.stderr = io.StringIO()
    try:
        kept_z = t2._create_zones_with_until_day(dict(zones_map))
    except BaseException as e:  # noqa
        kept_z = None
        sys.stderr = old
        v.violation("c18:until-day-pass-raises:%s" % type(e).__name__, "the UNTIL-day pass raised", {"error": repr(e)[:300]})
    finally:
        sys.stderr = old
    if kept_z is not None:
        for zn, (y, month, on, o) in parsed.items():
            until_cases += 1
            case = {"until_year": y, "until_month": month, "until_day": on, "calendar": o.isoformat()}
            if zn in kept_z:
                until_kept += 1
                e = [x for x in kept_z[zn] if x['untilYear'] == y][0]
                case["resolved"] = [e['untilMonth'], e['untilDay']]
                if o.year != y:
                    v.violation("c18:until-day-in-another-year-admitted", "a Zone UNTIL day that falls into another year was admitted instead of rejected", case)
                elif (e['untilMonth'], e['untilDay']) != (o.month, o.day):
                    v.violation("c18:until-day-differs-from-calendar", "a Zone UNTIL day was resolved to a different (month, day) than the calendar's", case)
            else:
                until_rejected += 1
                if o.year == y:
                    v.violation("c18:until-day-wrongly-rejected", "a Zone UNTIL day that stays inside its year was rejected", case)
    if n < 500000 or until_cases < 50000:
        v.inconclusive_because("too few cases compared: %d rule cases, %d UNTIL cases" % (n, until_cases))
    v.coverage.update({
        "evaluations": n,
        "distinct_nontrivial": len(distinct),
        "rule": "admission is decided by executing the real Transformer._create_rules_with_on_day_expansion on one synthetic policy per "
                "(ON string, month) for every string of the grammar n | lastDow | Dow>=n | Dow<=n (n=1..31) and 9 malformed strings that have no reading in the grammar; "
                "every admitted (month, weekday, day) x every year 1873..2127 is resolved by the C++ calcStartDayOfMonth (ASan+UBSan) "
                "and the Python calc_day_of_month and compared with a datetime-based calendar oracle (expressions naming a day the "
                "month does not have are outside zic's input language and skipped: %d). distinct = distinct (month, weekday, day) "
                "expressions. For the years 2000..2049 every case is also built as an in-memory one-era zone (switch to +1:00 on the expression at 12:00, "
                "back half a year later) and asked through BasicZoneProcessor and ExtendedZoneProcessor: DST must begin exactly at 12:00 of the calendar's "
                "(month, day), i.e. the resolved month is used as well as the day. %d (ON, month) combinations were rejected by the compiler. The same strings in the UNTIL column of a Zone line "
                "(months 1,2,3,6,11,12 x years 2000..2028) go through the real Transformer._create_zones_with_until_day: kept zones must carry the "
                "calendar's (month, day), days that fall into another year must be rejected." % (skipped_invalid, rejected),
        "samples": samples or [{"admitted": len(admitted)}],
        "admitted_expressions": len(admitted),
        "rejected_expressions": rejected,
        "cross_year_cases": spill,
        "applied_day_cases": applied,
        "until_day_cases": until_cases, "until_day_kept": until_kept, "until_day_rejected": until_rejected,
        "exhaustive": True,
    })
    return v.finish()
