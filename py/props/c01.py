"""C01 - extended zones: offset, DST flag, abbreviation equal zic at every instant."""
import random

import vlib
import zicoracle
from vlib import REPO, VERIF, Verdict, build, run_shards

N = vlib.NCPU


def sweep_property(prop, db, dbdir, tier, cross=False):
    v = Verdict(prop, tier)
    work = vlib.scratch()
    try:
        ora = zicoracle.build_shipped_oracle(REPO, dbdir, work)
    except zicoracle.OracleError as e:
        v.inconclusive_because("oracle: %s" % e)
        v.coverage.update({"evaluations": 1, "distinct_nontrivial": 2, "rule": "oracle construction failed", "samples": [str(e)]})
        return v, None
    ofile = work / "oracle.bin"
    segs = dict(ora["segments"])
    names = list(ora["names"])
    if cross:
        # the extended registry's zones are needed by name only for the comparison, not the oracle
        pass
    zicoracle.write_oracle_file(ofile, segs, names)
    drv = VERIF / "native" / "tzsweep.cpp"
    fast = build(drv, "fast")
    san = build(drv, "sanrec")
    rng = random.Random(vlib.seed())
    nz = len(names)
    tot, samples = {}, []
    maxima = {}

    def go(exe, args, san_mode, what):
        r = run_shards(exe, args, san=san_mode, timeout=7000)
        v.absorb(r, what)
        for k, n in r.counters.items():
            tot[what + "." + k] = n
            tot[k] = tot.get(k, 0) + n
        for k, n in r.maxima.items():
            maxima[k] = max(maxima.get(k, n), n)
        samples.extend(r.samples)
        return r

    base = ["--oracle", ofile, "--db", db, "--prop", prop.lower()] + (["--cross"] if cross else [])
    S = 4 * N
    if tier == "quick":
        go(fast, [base + ["--grid", 5, "--nbhd", 120, "--shard", "%d/%d" % (i, S)] for i in range(S)], None, "grid5")
        # sanitizer build: a seed-chosen third of the zones (shards), coarser grid, same neighbourhoods
        third = rng.sample(range(S), S // 3)
        go(san, [base + ["--grid", 30, "--nbhd", 60, "--shard", "%d/%d" % (i, S)] for i in third], "rec", "san")
        go(fast, [base + ["--grid", 60, "--nbhd", 3, "--managed", "--shard", "%d/%d" % (i, N)] for i in range(N)], None, "managed")
        exhaustive = False
        k_all = 0
    else:
        k_all = 24
        allsec = sorted(rng.sample(range(nz), k_all))
        go(fast, [base + ["--grid", 1, "--nbhd", 7200, "--fields-every", 5, "--shard", "%d/%d" % (i, S)] for i in range(S)],
           None, "grid1")
        # every second of the 50 years for k zones: give each its own process
        go(fast, [base + ["--allsec", z, "--shard", "%d/%d" % (z, nz), "--nodesc", "--fields-every", 11] for z in allsec],
           None, "allseconds")
        go(san, [base + ["--grid", 5, "--nbhd", 120, "--shard", "%d/%d" % (i, S)] for i in range(S)], "rec", "san")
        go(fast, [base + ["--grid", 15, "--nbhd", 60, "--managed", "--shard", "%d/%d" % (i, N)] for i in range(N)], None, "managed")
        exhaustive = False
    nbp = sum(1 for n in names for s in segs[n][1:] if 0 <= s[0] - zicoracle.EPOCH_SHIFT < 1577923200)
    first = "grid5" if tier == "quick" else "grid1"
    if tot.get(first + ".sweep.zones", 0) != nz:
        v.inconclusive_because("swept %s zones, registry/oracle has %d" % (tot.get(first + ".sweep.zones"), nz))
    if tot.get("sweep.fields_checked", 0) < 1000 or tot.get("sweep.observed_changes", 0) < nbp // 2:
        v.inconclusive_because("deciding counters too low: %r" % tot)
    v.coverage.update({
        "evaluations": tot.get("sweep.probes", 0),
        "distinct_nontrivial": tot.get(first + ".sweep.segments_crossed", 0),
        "rule": "%s: every zone of %s through a fresh processor; (offset, DST flag, abbreviation) at every %s of 2000..2049 "
                "ascending, every second within +-%d s of every zic breakpoint and UTC year boundary, every change the sweep "
                "itself observes bisected to the second, a descending 6-hour sweep; ZonedDateTime fields vs int64 civil oracle "
                "on a sub-grid and in all neighbourhoods; %s; managed (ZoneManager) time zones on a coarser grid; ASan+UBSan on "
                "%s. Oracle: zic -b fat on the Zone/Rule lines recorded beside the shipped tables, era-split at 2051, read by "
                "own TZif reader, cross-read by CPython zoneinfo. distinct = distinct (zone, zic segment) pairs crossed." % (
                    prop, dbdir, "5th minute" if tier == "quick" else "minute", 120 if tier == "quick" else 7200,
                    ("every second of the 50 years for %d seed-chosen zones" % k_all) if k_all else "no all-seconds zones in quick",
                    "a seed-chosen third of the zones (30-min grid)" if tier == "quick" else "all zones (5-min grid)"),
        "samples": samples[:6],
        "counters": tot,
        "maxima": maxima,
        "zones": nz,
        "zic_breakpoints_in_domain": nbp,
        "oracle_selfcheck_points": ora["selfcheck_points"],
    })
    v.assumptions += ["oracle = installed zic 2.36 reading the source lines recorded as comments beside the shipped tables",
                      "piecewise constancy between probes is not assumed for enumerated points; for unenumerated seconds the "
                      "claim is only that no change point other than the bisected ones was observed"]
    return v, tot


def run(tier):
    v, _ = sweep_property("C01", "extended", "zonedbx", tier)
    return v.finish()
