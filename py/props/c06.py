"""C06 - calendar and epoch arithmetic is proleptic Gregorian and bijective."""
import vlib
from vlib import VERIF, Verdict, build, run_shards

N = vlib.NCPU


def run(tier):
    v = Verdict("C06", tier)
    drv = VERIF / "native" / "calendar.cpp"
    fast = build(drv, "fast", with_db=True)
    san = build(drv, "sanrec", with_db=True)
    total = vlib.ShardResult()

    def go(exe, args, san_mode=None, what=""):
        r = run_shards(exe, args, san=san_mode, timeout=3000)
        v.absorb(r, what)
        for k, n in r.counters.items():
            total.counters[k] = total.counters.get(k, 0) + n
        total.samples.extend(r.samples)
        return r

    # exhaustive day sweep + byte triples, under ASan+UBSan
    go(san, [["--mode", "c06days"]], "rec", "c06days(san)")
    go(san, [["--mode", "c06bytes", "--shard", "%d/%d" % (i, N)] for i in range(N)], "rec", "c06bytes(san)")
    # strided epoch-seconds sweep under sanitizers.  The partial first day of the int32 range
    # (where 86400*days is not representable) is left to C09: C06 speaks about values, and the
    # -O2 sweep below does cover that day.
    go(san, [["--mode", "c06secs", "--stride", "9973", "--shard", "%d/%d" % (i, N)] for i in range(N)],
       "rec", "c06secs(san)")
    exhaustive_secs = False
    if tier == "thorough":
        r = go(fast, [["--mode", "c06secs", "--full", "--edge", "--shard", "%d/%d" % (i, 4 * N)] for i in range(4 * N)],
               None, "c06secs(full)")
        exhaustive_secs = not r.crashes and not r.timeouts
    else:
        go(fast, [["--mode", "c06secs", "--stride", "499", "--edge", "--shard", "%d/%d" % (i, N)] for i in range(N)],
           None, "c06secs(strided)")

    c = total.counters
    if c.get("c06.days", 0) < 93136 or c.get("c06.time_triples", 0) < (1 << 24) or \
            c.get("c06.date_triples", 0) < (1 << 24) or c.get("c06.epoch_seconds", 0) < 1000000:
        v.inconclusive_because("deciding counters too low: %r" % c)
    v.coverage.update({
        "evaluations": sum(c.get(k, 0) for k in ("c06.days", "c06.time_triples", "c06.date_triples", "c06.epoch_seconds")),
        # distinct non-trivial: distinct calendar days + distinct valid times of day
        # + distinct epoch-second values checked on the -O2 build (san repeats excluded)
        "distinct_nontrivial": 93136 * (c.get("c06.days", 0) >= 93136) + c.get("c06.time_valid", 0)
        + (c.get("c06.epoch_seconds", 0) // 2 if not exhaustive_secs else (1 << 32) - 1),
        "rule": "every day 1873-01-01..2127-12-31 (identity, day count, weekday, leap, month length, +-1 day) vs an "
                "independent int64 civil-calendar implementation; every (h,m,s) and (yearTiny,month,day) byte triple vs the "
                "documented validity predicate; epoch seconds: %s; distinct = distinct days + distinct valid times + "
                "distinct second values" % ("all 2^32-1 values" if exhaustive_secs else
                                            "stride 499 (-O2) and 9973 (ASan+UBSan) plus every day boundary +-2 s and both 100000-s edges"),
        "samples": total.samples[:8],
        "counters": c,
        "exhaustive": bool(exhaustive_secs),
        "sanitizer_builds": ["asan+ubsan: day sweep, byte triples, strided seconds"],
        "info_day_beyond_month_not_flagged": c.get("c06.info_day_beyond_month_not_flagged", 0),
    })
    v.assumptions += ["host is 64-bit little endian, int is 32 bit (AVR promotions not observed)",
                      "Arduino/AceCommon shim in /verif/shim", "oracle: Hinnant civil-calendar algorithms on int64"]
    return v.finish()
