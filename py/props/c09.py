"""C09 - total error handling and memory safety; transition buffers never overflow."""
import os
import vlib
from vlib import VERIF, Verdict, build, run_shards
from props.c08 import HIST_ENV

N = vlib.NCPU


def run(tier):
    v = Verdict("C09", tier)
    drv = VERIF / "native" / "history.cpp"
    san = build(drv, "sanrec")
    seed = vlib.seed()
    tot, samples, maxima = {}, [], {}

    def go(exe, args, what, **kw):
        r = run_shards(exe, args, san="rec", timeout=7000, env_extra=HIST_ENV, **kw)
        v.absorb(r, what)
        for k, n in r.counters.items():
            tot[k] = tot.get(k, 0) + n
            tot[what + "." + k] = n
        for k, n in r.maxima.items():
            maxima[k] = max(maxima.get(k, n), n)
        samples.extend(r.samples)
        return r

    base = ["--prop", "c09", "--seed", seed]
    q = tier == "quick"
    go(san, [base + ["--mode", "hostile", "--random", 60000 if q else 6000000, "--shard", "%d/%d" % (i, N)] for i in range(N)], "hostile")
    go(san, [base + ["--mode", "sequences", "--len", 3 if q else 4, "--zones", 7 if q else 15, "--shard", "%d/%d" % (i, N)]
             for i in range(N)], "sequences")
    go(san, [base + ["--mode", "buffers", "--shard", "%d/%d" % (i, N)] for i in range(N)], "buffers")
    go(san, [base + ["--mode", "pairs", "--noshadow", "--zones", 24 if q else 200, "--shard", "%d/%d" % (i, N)] for i in range(N)], "pairs")
    go(san, [base + ["--mode", "shared", "--noshadow", "--steps", 20000 if q else 2000000, "--shard", "%d/%d" % (300 + i, N)]
             for i in range(N)], "shared")
    go(san, [base + ["--mode", "managers", "--noshadow", "--steps", 20000 if q else 2000000, "--shard", "%d/%d" % (300 + i, N)]
             for i in range(N)], "managers")
    # degenerate registry shapes, and a slice of the hostile workload, also in an unoptimised sanitizer build
    san0 = build(drv, "sanrec0")
    go(san, [base + ["--mode", "degenerate"]], "degenerate")
    go(san0, [base + ["--mode", "degenerate"]], "degenerate(O0)")
    go(san0, [base + ["--mode", "hostile", "--random", 4000 if q else 200000, "--shard", "%d/%d" % (500 + i, N)] for i in range(N)], "hostile(O0)")
    go(san0, [base + ["--mode", "sequences", "--len", 2, "--zones", 3 if q else 8, "--shard", "%d/%d" % (500 + i, N)] for i in range(N)], "sequences(O0)")
    # clock operations (SystemClock / SystemClockLoop) under hostile call histories from arbitrary millisecond-counter values,
    # with a logical step bound on counter reads ("hangs" decided on steps, not wall time), in both sanitizer builds
    for variant in ("sanrec", "sanrec0"):
        clk = build(VERIF / "native" / "clocks.cpp", variant)
        r = run_shards(clk, [["--mode", "c09clock", "--seed", seed, "--rounds", 3000 if q else 300000, "--shard", "%d/%d" % (i, N)] for i in range(N)],
                       san="rec", timeout=7000)
        v.absorb(r, "clock-histories(%s)" % variant)
        for k, n in r.counters.items():
            tot[k] = tot.get(k, 0) + n
        samples.extend(r.samples[:1])
    if tot.get("c09.clock.histories", 0) < 20000 or tot.get("c09.clock.ops_with_counter_beyond_16_bits", 0) < 100000:
        v.inconclusive_because("clock histories too few: %r" % {k: n for k, n in tot.items() if k.startswith("c09.clock")})
    # lookups in large UNSORTED registries (both full shipped registries reversed and shuffled: the linear-search path with
    # more than 255 entries) and in small ones, through the step-counting / bounds-recording registry monitor of the C10
    # driver: only non-termination and out-of-registry reads are read here (wrong results are C10's subject)
    regexe = build(VERIF / "native" / "registry.cpp", "sanrec")
    r = run_shards(regexe, [["--mode", "c10", "--maxsize", 4, "--seed", seed, "--shard", "%d/%d" % (i, N)] for i in range(N)], san="rec", timeout=3000)
    r.witnesses = [dict(w, key=w["key"].replace("c10:", "c09:registry-")) for w in r.witnesses if "terminate" in w.get("key", "") or "outside" in w.get("key", "")]
    v.absorb(r, "registry-lookups")
    tot["registry.full_unsorted_registries"] = r.counters.get("c10.full_unsorted_registries", 0)
    tot["registry.name_lookups"] = r.counters.get("c10.name_lookups", 0)
    if tot["registry.full_unsorted_registries"] < 2:
        v.inconclusive_because("no large unsorted registries were looked up")
    # the value-type sweeps of the calendar driver at the int32 edge, under sanitizers
    cal = build(VERIF / "native" / "calendar.cpp", "sanrec")
    r = run_shards(cal, [["--mode", "c06secs", "--stride", 99991 if q else 9973, "--edge", "--shard", "%d/%d" % (i, N)] for i in range(N)],
                   san="rec", timeout=7000)
    v.absorb(r, "calendar-edge")
    tot["calendar.epoch_seconds"] = r.counters.get("c06.epoch_seconds", 0)
    if not q:
        # uninitialised reads are invisible to ASan/UBSan (and MSan cannot be used: libstdc++ is not instrumented):
        # a small slice of the same workloads under valgrind memcheck
        vg = build(drv, "vg")
        for mode, extra in (("hostile", ["--random", 3000]), ("sequences", ["--len", 2, "--zones", 2]), ("shared", ["--steps", 3000, "--noshadow"]),
                            ("managers", ["--steps", 3000, "--noshadow"])):
            r = run_shards(vg, [base + ["--mode", mode, "--shard", "%d/%d" % (400 + i, N)] + extra for i in range(N)], valgrind=True, timeout=7000)
            v.absorb(r, "valgrind:" + mode)
            tot["valgrind.%s.steps" % mode] = sum(n for k, n in r.counters.items() if k.startswith("hist."))
    # compiler-generated zones: the shipped Zone/Rule lines and tzdata 2025b compiled afresh by the real compiler (its
    # Python ZoneSpecifier decides the recorded transitionBufSize), the generated tables run by the real processors; only the
    # buffer monitors and the sanitizers are read here, the semantic comparison of those runs is C03's
    from props import c03 as c03mod
    jobs = [["recon-x", "--grid", 360, "--nbhd", 10, "--targets", "arduino"], ["tz2025b", "--grid", 360, "--nbhd", 10, "--targets", "arduino"],
            ["features", "--grid", 360 if q else 60, "--nbhd", 10, "--targets", "arduino"]]    # features.zi has a zone-year that needs all five basic slots
    jobs.append(["unsupported", "--grid", 360 if q else 60, "--nbhd", 10, "--targets", "arduino"])   # whatever the compiler admits of the constructs it documents as unsupported
    # "compiler-generated" is not only the default year range: seed-derived subsets compiled for 2000..2038 / 2010..2030 as well
    jobs += [["mutant", "--seed", seed, "--index", i, "--grid", 360, "--nbhd", 10, "--targets", "arduino"] for i in range(6 if q else 60)]
    gen_zones = 0
    for argv, r in c03mod.run_workers(jobs, parallel=len(jobs), jobs_each=max(2, N // len(jobs))):
        for inc in r["inconclusive"]:
            v.inconclusive_because("generated tables (%s): %s" % (argv[0], inc))
        for viol in r["violations"]:
            k = viol["key"]
            if ":compiler-died:" in k or k.endswith(":generated-code-does-not-compile"):
                # no tables, nothing observed: C03 judges the compiler; here the buffer / safety clause stays undecided for this source
                v.inconclusive_because("generated tables (%s): the compiler did not produce tables (%s)" % (argv[0], k))
                continue
            if k.endswith((":transition-pool-high-water", ":basic-transition-dropped", ":basic-cache-invariant", ":generated-table-sweep-crash")) \
                    or k.startswith(("asan:", "ubsan:")):
                v.violation("c09:generated:" + k.split(":", 1)[1] if k.startswith("c03:") else k,
                            "freshly generated tables: " + viol["what"], viol.get("witness"))
        for w in r["stats"].get("edge_year_high_water", []):
            v.violation("c09:generated:buffer-size-reached-in-an-edge-year-of-a-non-default-range",
                        "a zone compiled for a year range other than 2000..2050 reaches its recorded transition buffer size in the year before the first "
                        "or after the last compiled year, which the processor accepts and the compiler's estimator does not look at", w)
            tot["generated.edge_year_high_water"] = tot.get("generated.edge_year_high_water", 0) + 1
        gen_zones += int(r["stats"].get("ar.sweep.zones", 0))
        tot["generated.%s.zones" % argv[0]] = int(r["stats"].get("ar.sweep.zones", 0))
        tot["generated.%s.max_high_water" % argv[0]] = int(r["stats"].get("ar.max_high_water", -1))
        tot["generated.%s.basic_hook_zones" % argv[0]] = int(r["stats"].get("ar.sweep.hook_checked_zones", 0))
    if gen_zones < 600:
        v.inconclusive_because("too few compiler-generated zones were run (%d)" % gen_zones)
    if os.environ.get(vlib.GUARD) != "1":
        v.inconclusive_because("hook guard off: basic cache overflow not observable")
    if tot.get("hist.buffer_year_fills", 0) < 387 * 3 * 52 or tot.get("hist.basic_hook_zones", 0) < 268 or \
            tot.get("hist.component_tuples", 0) < 100000 or tot.get("hist.sequences", 0) < 10000:
        v.inconclusive_because("deciding counters too low: %r" % tot)
    v.coverage.update({
        "evaluations": sum(tot.get(k, 0) for k in ("hist.component_tuples", "hist.epoch_cases", "hist.sequence_steps",
                                                   "hist.buffer_year_fills", "hist.pair_histories", "hist.shared_steps",
                                                   "hist.manager_steps", "calendar.epoch_seconds", "c09.clock.setNow", "c09.clock.getNow",
                                                   "c09.clock.loop", "c09.clock.forceSync", "c09.clock.setup", "registry.name_lookups")),
        "distinct_nontrivial": tot.get("hist.sequences", 0) + tot.get("hist.buffer_year_fills", 0),
        "rule": "all under ASan+UBSan (report-and-continue, every report block is a witness), crash journal and CPU-budget hang "
                "detector: (1) every public factory/accessor of the value types on the product of boundary component values "
                "(years -32768..32767 incl. 1872/1873/2127/2128, month 0/13/255, day 0/32/255, hour 24/25/255, minute 60/255, offsets "
                "incl. the sentinel and int16 extremes) plus seeded random tuples, epoch-second factories at the int32 edges and "
                "on a stride, malformed date strings, DateStrings with every index; invalid inputs must give isError/sentinels; "
                "(2) every call sequence of length %d over {valid, below range, above range, sentinel} x {getUtcOffset, "
                "getDeltaOffset, getAbbrev, getOffsetDateTime, printTo} on fresh basic and extended time zones: non-valid arguments "
                "must answer with error values, also when repeated; (3) buffer bounds: every zone of zonedbx, every year "
                "1999..2050 ascending, descending and via getOffsetDateTime, high-water mark read after each fill (< recorded "
                "size and < 8); every zone of zonedb with the guarded dropped-transition hook; (3b) the same two monitors over tables "
                "generated afresh by the real compiler from the shipped Zone/Rule lines, from tzdata 2025b and from data/features.zi (which has a zone-year "
                "needing all five basic slots) (the compiler's own "
                "ZoneSpecifier decides each recorded size), every year 2000..2049; (4) the C08 histories without "
                "shadow; (5) SystemClock / SystemClockLoop under random orders of setNow/getNow/loop/forceSync/setup from 14 counter "
                "bases (0 .. ULONG_MAX), arbitrary advances and reference/backup clocks answering anything (all four wirings), in the "
                "-O1 and -O0 sanitizer builds, with a logical step bound on counter reads (a million reads while time stands still = "
                "the operation does not terminate); (6) name lookups in both full shipped registries reversed and shuffled through "
                "the step-counting, bounds-recording registry monitor (non-termination and out-of-registry reads only). "
                "distinct = distinct sequences + distinct (zone, year, pass) fills." % (3 if q else 4),
        "samples": samples[:6] + [{"max_high_water": maxima.get("hist.max_high_water")}],
        "counters": tot,
        "maxima": maxima,
    })
    return v.finish()
