"""C04 - Python ZoneSpecifier and the C++ extended processor are observationally equal; options don't matter."""
import datetime as dt
import random
import subprocess
import sys
from pathlib import Path

sys.path.insert(0, str(Path(__file__).resolve().parent.parent))   # also runnable as a shard worker script

import c03lib
import decode
import vlib
from vlib import REPO, VERIF, Verdict, build, run_shards

N = vlib.NCPU
EPOCH = dt.datetime(2000, 1, 1)


def cpp_dump():
    exe = build(VERIF / "native" / "codec.cpp", "fast")
    r = run_shards(exe, [["--db", "extended"]], timeout=600)
    dumps = [i for i in r.infos if i.get("kind") == "extended"]
    return dumps[0] if dumps else None, r


def zone_queries(zs, start_year, until_year, grid_s, local_step_min):
    """Instants and local date-times to ask both sides, from the Python side's own transitions."""
    instants, locals_ = set(), []
    lo = int((dt.datetime(start_year, 1, 1) - EPOCH).total_seconds())
    hi = int((dt.datetime(until_year, 1, 1) - EPOCH).total_seconds())
    seen = set()
    for y in range(start_year, until_year):
        zs.init_for_year(y)
        for d in (-1, 0, 1):
            t = int((dt.datetime(y, 1, 1) - EPOCH).total_seconds()) + d
            if lo <= t < hi:
                instants.add(t)
        for tr in zs.transitions:
            b = tr.startEpochSecond
            if b in seen or not (lo + 86400 * 2 <= b < hi - 86400 * 2):
                continue
            seen.add(b)
            for d in (-60, -1, 0, 1, 60):
                instants.add(b + d)
            # wall-clock image of the transition, +-200 min
            info = tr.to_timezone_tuple()
            base = EPOCH + dt.timedelta(seconds=b + info.total_offset)
            base = base.replace(second=0)
            for k in range(-200, 201, local_step_min):
                locals_.append(base + dt.timedelta(minutes=k))
    instants.update(range(lo, hi, grid_s))
    # the edges of the range as the zone's own clock sees them: instants just before `lo` (east of UTC) or just after `hi`
    # (west of UTC) whose LOCAL date is still inside [start_year, until_year) - both implementations answer them
    for k in range(0, 16):
        for t in (lo - k * 3600 - 1800, lo - k * 3600 - 1, hi + k * 3600, hi + k * 3600 + 1799):
            if lo <= t < hi:
                continue
            try:
                info = zs.get_timezone_info_for_seconds(t)
            except Exception:  # noqa
                continue
            if info is not None and lo <= t + info.total_offset < hi:
                instants.add(t)
    return sorted(instants), locals_


def run(tier):
    v = Verdict("C04", tier)
    seed = vlib.seed()
    rng = random.Random(seed)
    dump, r0 = cpp_dump()
    v.absorb(r0, "codec")
    if dump is None:
        v.inconclusive_because("no table dump from the codec driver")
        return v.finish()
    infos = decode.to_python_model(dump)
    names = [z["name"] for z in dump["zones"]]          # registry order == index for the C++ side
    q = tier == "quick"
    chosen = list(range(len(names)))    # every zone in both tiers (a defect may live in four zones on one day: seeded change C04h)
    sys.path.insert(0, str(REPO / "tools"))
    from zonedb.zone_specifier import ZoneSpecifier
    exe = build(VERIF / "native" / "localres.cpp", "fast")
    grid_s = (86400 * 13 + 3600 * 7) if q else (6 * 3600 + 1800)
    step = 10 if q else 1
    # ---- python answers + query file per shard
    work = vlib.scratch()
    shards = [chosen[i::N] for i in range(N) if chosen[i::N]]
    import pickle
    jobs = []
    for si, sh in enumerate(shards):
        wf = work / ("c04-%02d.pkl" % si)
        wf.write_bytes(pickle.dumps({"infos": {names[i]: infos[names[i]] for i in sh}, "index": {names[i]: i for i in sh},
                                     "grid_s": grid_s, "step": step, "exe": str(exe), "lo": 0, "hi": 1577923200}))
        jobs.append(wf)
    import concurrent.futures as cf
    import json

    def one(wf):
        p = subprocess.run([sys.executable, str(VERIF / "py" / "props" / "c04.py"), str(wf)], capture_output=True, text=True, timeout=7000)
        out = wf.with_suffix(".json")
        if p.returncode != 0 or not out.exists():
            return {"failed": p.stderr[-1500:]}
        return json.loads(out.read_text())
    tot = {}
    samples = []
    with cf.ThreadPoolExecutor(max_workers=N) as ex:
        for o in ex.map(one, jobs):
            if "failed" in o:
                v.inconclusive_because("C04 shard worker failed: " + o["failed"][-400:])
                continue
            for w in o["witnesses"]:
                v.violation(w["key"], w["what"], w)
            for k, n in o["counters"].items():
                tot[k] = tot.get(k, 0) + n
            samples += o["samples"][:1]
    # ---- the same comparison on tables compiled afresh: one compilation yields the Python tables (InlineGenerator) and the C++
    #      tables (ArduinoGenerator, own namespace); hand-written sources with constructs the shipped data does not contain
    import c03worker
    import tzpipe
    import tzsrc
    fresh = [("features", c03worker.features()), ("unsupported", c03worker.unsupported())]
    if not q:
        fresh.append(("tzdata-2025b", c03worker.tz2025b(True)[0]))
    fjobs = []
    for pid, prog in fresh:
        try:
            indir = tzpipe.write_input_dir(tzsrc.render_long(prog), work / ("in-" + pid))
            comp = tzpipe.compile_source(indir, "extended", 2000, 2050)
            gen = work / ("gen-" + pid)
            tzpipe.generate_arduino(comp, gen, "gendbx")
            fexe = build(VERIF / "native" / "localres.cpp", "fast", extra_sources=[gen / f for f in ("zone_infos.cpp", "zone_policies.cpp", "zone_registry.cpp")],
                         defines=["VERIF_GEN_REGISTRY_H=\"%s\"" % (gen / "zone_registry.h"), "VERIF_EXT_NS=gendbx"], includes=[gen], name="localres_" + pid)
        except (tzpipe.CompilerDied, vlib.BuildError) as e:
            v.inconclusive_because("fresh tables for %s could not be produced (C03 judges that): %s" % (pid, str(e)[-300:]))
            continue
        znames = sorted(comp.zone_infos)
        tot["fresh.%s.zones" % pid] = len(znames)
        for si, shn in enumerate([znames[i::N] for i in range(N) if znames[i::N]]):
            wf = work / ("c04-%s-%02d.pkl" % (pid, si))
            wf.write_bytes(pickle.dumps({"infos": {n: comp.zone_infos[n] for n in shn}, "index": {n: n for n in shn},
                                         "grid_s": grid_s, "step": step, "exe": str(fexe), "lo": 0, "hi": 1577923200}))
            fjobs.append(wf)
    with cf.ThreadPoolExecutor(max_workers=N) as ex:
        for o in ex.map(one, fjobs):
            if "failed" in o:
                v.inconclusive_because("C04 shard worker (fresh tables) failed: " + o["failed"][-400:])
                continue
            for w in o["witnesses"]:
                w["data"] = "freshly compiled tables"
                v.violation(w["key"], w["what"], w)
            for k, n in o["counters"].items():
                tot["fresh." + k] = tot.get("fresh." + k, 0) + n
    if tot.get("fresh.instants", 0) < 5000:
        v.inconclusive_because("freshly compiled tables were not compared (%r)" % {k: n for k, n in tot.items() if k.startswith("fresh")})
    # ---- option independence (python only), on the same decoded data
    opt_names = list(names)      # option independence: every zone, targeted instants (transitions, year boundaries)
    zic_segs = {}
    items = [{"mode": "options", "zone_infos": sh, "segments": zic_segs, "start_year": 2000, "until_year": 2050,
              "grid_s": (86400 * 61 + 3600 * 5) if q else (86400 * 5 + 3600 * 5), "local_step": 3 if q else 1}
             for sh in c03lib.shard_dict({n: infos[n] for n in opt_names}, N)]
    m = c03lib.run_py_workers(items, work / "opts")
    for f in m["failed"]:
        v.inconclusive_because("options worker failed: " + f["stderr"][-300:])
    for w in m["witnesses"]:
        v.violation(w["key"], w["what"], w)
    for k, n in m["counters"].items():
        tot["opt." + k] = tot.get("opt." + k, 0) + n
    if tot.get("instants", 0) < 10000 or tot.get("locals", 0) < 10000 or tot.get("opt.option_probes", 0) < 10000:
        v.inconclusive_because("deciding counters too low: %r" % tot)
    v.coverage.update({
        "evaluations": tot.get("instants", 0) + tot.get("locals", 0) + tot.get("fresh.instants", 0) + tot.get("fresh.locals", 0) + tot.get("opt.option_probes", 0) + tot.get("opt.option_local_probes", 0),
        "distinct_nontrivial": tot.get("transitions", 0),
        "rule": "same data on both sides: every zone of the shipped zonedbx is read back through the C++ brokers (codec driver) and "
                "decoded into the Python data model; %s; plus tables compiled afresh by the real compiler from data/features.zi and "
                "data/unsupported.zi (and tzdata 2025b in the thorough tier), where one compilation yields both the Python tables and the C++ tables. Instants: every transition the Python side computes +-{0,1,60} s, every "
                "year boundary +-1 s, a %d s grid, and instants up to 16 h outside [2000-01-01Z, 2050-01-01Z) whose local date (by the Python side's own answer) is inside the range; local date-times: every %d min within +-200 min of each transition's wall-clock "
                "image. The C++ side answers a query file (getUtcOffset/getDeltaOffset/getAbbrev, ZonedDateTime::forComponents); "
                "compared as (total, dst, abbreviation) and as resolved instants (local - python offset == C++ epoch seconds). "
                "Options: all 387 zones, the 8 combinations {13,14} x {optimized,basic finder} x {in-place,basic selector} against "
                "the default at every transition +-1 s, 11 offsets around every year boundary (where the 13- and 14-month windows "
                "differ), a grid, and local times around transitions and New Year. distinct = distinct (zone, transition) pairs." % (
                    "all 387 zones", grid_s, step),
        "samples": samples[:6],
        "counters": tot,
    })
    v.assumptions += ["differential: each implementation is the other's oracle here; zic is consulted by C01/C03, not by C04"]
    return v.finish()


def shard_main(wf):
    """Runs in a subprocess: python answers, C++ answers via the query mode of localres, comparison."""
    import json
    import pickle
    from pathlib import Path
    sys.path.insert(0, str(Path(__file__).resolve().parent.parent))
    import vlib as _v
    sys.path.insert(0, str(_v.REPO / "tools"))
    from zonedb.zone_specifier import ZoneSpecifier
    w = pickle.loads(Path(wf).read_bytes())
    out = {"witnesses": [], "counters": {}, "samples": []}
    c = out["counters"]
    for name, zi in w["infos"].items():
        idx = w["index"][name]
        zs = ZoneSpecifier(zi)
        instants, locals_ = zone_queries(zs, 2000, 2050, w["grid_s"], w["step"])
        c["transitions"] = c.get("transitions", 0) + len(locals_) // max(1, (400 // w["step"] + 1))
        lines = ["%s i %d" % (idx, t) for t in instants]
        lines += ["%s l %d %d %d %d %d %d" % (idx, l.year, l.month, l.day, l.hour, l.minute, l.second) for l in locals_]
        p = subprocess.run([w["exe"], "--mode", "c04q"], input="\n".join(lines) + "\n", capture_output=True, text=True, timeout=3000)
        ans = [a for a in p.stdout.splitlines() if a[:2] in ("i ", "l ")]
        if p.returncode != 0 or len(ans) != len(lines):
            out["witnesses"].append({"key": "c04:cpp-side-died", "what": "C++ query process failed", "zone": name,
                                     "rc": p.returncode, "stderr": p.stderr[-500:], "answers": len(ans), "queries": len(lines)})
            continue
        bad = 0
        for t, a in zip(instants, ans[:len(instants)]):
            c["instants"] = c.get("instants", 0) + 1
            if not (w.get("lo", -10**12) <= t < w.get("hi", 10**12)):
                c["instants_outside_utc_range_with_local_date_inside"] = c.get("instants_outside_utc_range_with_local_date_inside", 0) + 1
            info = zs.get_timezone_info_for_seconds(t)
            f = a.split()
            got = (f[1], f[2], "" if f[3] == "-" else f[3])
            want = (str(info.total_offset // 60), str(info.dst_offset // 60), info.abbrev)
            if got != want or info.total_offset % 60 or info.dst_offset % 60:
                out["witnesses"].append({"key": "c04:instant-answers-differ", "what": "Python ZoneSpecifier and C++ extended processor disagree at an instant",
                                         "zone": name, "epochSeconds": t, "cpp": list(got), "python": list(want)})
                bad += 1
                if bad > 3:
                    break
        for l, a in zip(locals_, ans[len(instants):]):
            c["locals"] = c.get("locals", 0) + 1
            info = zs.get_timezone_info_for_datetime(l)
            f = a.split()
            if info is None:
                want = "ERR"
            else:
                want = str(int((l - EPOCH).total_seconds()) - info.total_offset)
            if f[1] != want:
                out["witnesses"].append({"key": "c04:local-resolution-differs", "what": "Python and C++ select different offsets for a local date-time",
                                         "zone": name, "local": l.isoformat(), "cpp_epoch": f[1], "python_epoch": want})
                bad += 1
                if bad > 6:
                    break
        c["zones"] = c.get("zones", 0) + 1
        if not out["samples"] and instants:
            t = instants[len(instants) // 3]
            out["samples"].append({"zone": name, "epochSeconds": t, "python": list(zs.get_timezone_info_for_seconds(t)),
                                   "cpp": ans[len(instants) // 3]})
    Path(wf).with_suffix(".json").write_text(json.dumps(out, default=str))


if __name__ == "__main__":
    shard_main(sys.argv[1])
