"""C16 - TimeZone is a faithful value: equality, manual offsets, save/restore."""
import vlib
from vlib import VERIF, Verdict, build, run_shards


def run(tier):
    v = Verdict("C16", tier)
    exe = build(VERIF / "native" / "registry.cpp", "sanrec")
    r = run_shards(exe, [["--mode", "c16", "--seed", vlib.seed()]], san="rec", timeout=1800)
    v.absorb(r, "c16")
    c = r.counters
    if c.get("c16.zones", 0) < 600 or c.get("c16.manual", 0) < 1000 or c.get("c16.eq_pairs", 0) < 10000 or c.get("c16.type_bytes", 0) < 512 or c.get("c16.restored_zones_asked_in_competition", 0) < 20000 or c.get("c16.earlier_zone_asked_after_later_one", 0) < 600:
        v.inconclusive_because("deciding counters too low: %r" % c)
    v.coverage.update({
        "evaluations": sum(n for k, n in c.items() if k.startswith("c16.") and "info" not in k and k != "c16.pool"),
        "distinct_nontrivial": c.get("c16.zones", 0) + c.get("c16.manual", 0),
        "rule": "every zone of both registries as plain and manager-created value: save -> restore through a manager with the "
                "full registry (must equal the directly created zone and answer identically on 8 probe instants) and through a "
                "40-zone sub-registry (must be the error zone iff absent); manual zones on std -16:00..+16:00 x dst -1:00..+2:00 "
                "(15 min) plus int16 extremes; error/default zones; all 256 type bytes; operator== against the relation 'same "
                "kind and same zone or same offsets' on all ordered pairs of a %d-value pool. Under ASan+UBSan. distinct = "
                "distinct zones + distinct manual offset pairs." % c.get("c16.pool", 0),
        "samples": r.samples[:6],
        "counters": c,
        "exhaustive": True,
    })
    return v.finish()
