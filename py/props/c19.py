"""C19 - reference-data generators bracket every library transition and render losslessly."""
import concurrent.futures as cf
import datetime as dt
import importlib
import json
import os
import logging
import random
import subprocess
import sys

import vlib
from vlib import REPO, VERIF, Verdict

N = vlib.NCPU
UTC = dt.timezone.utc


def year_end_targets(lib, zones):
    """(zone, year) pairs where the library's own table has a change in the last two days of a year."""
    sys.path.insert(0, str(VERIF / "py"))
    import c19worker
    out = []
    for z in zones:
        try:
            tz, table = c19worker.lib_table(lib, z)
        except Exception:  # noqa
            continue
        for ts, off, dst, ab in table:
            if ts < 946684800 or ts > 2114380800:
                continue
            d = dt.datetime.fromtimestamp(ts, UTC)
            if d.month == 12 and d.day >= 30:
                out.append((z, d.year, ts))
    return out


def year_start_targets(lib, zones):
    """(zone, year, ts) where the library's own table has a change in the first two days (UTC) of a year, 1950..2037."""
    import c19worker
    out = []
    for z in zones:
        try:
            tz, table = c19worker.lib_table(lib, z)
        except Exception:  # noqa
            continue
        for ts, off, dst, ab in table:
            if ts < -631152000 or ts > 2114380800:
                continue
            d = dt.datetime.fromtimestamp(ts, UTC)
            if d.month == 1 and d.day <= 2:
                out.append((z, d.year, ts))
    return out


def render_and_read_back(v, data, work, counters, has_valid_abbrev=True, has_valid_dst=True, tag="render", blacklist=None):
    """Render ValidationData with the real ArduinoValidationGenerator, compile, read every item back.
    The two has_valid_* flags of the data set tell the generated *tests* what to compare; they are not a licence to
    drop or change what the *tables* carry (the property: rendering preserves every item's numbers and strings)."""
    sys.path.insert(0, str(REPO / "tools"))
    arval = importlib.import_module("validation.arvalgenerator")
    tr = importlib.import_module("tzdb.transformer")
    vd = {"start_year": 2000, "until_year": 2038, "source": "pytz", "version": "x", "has_valid_abbrev": has_valid_abbrev, "has_valid_dst": has_valid_dst,
          "test_data": data}
    out = work / tag
    out.mkdir()
    logging.getLogger().setLevel(logging.CRITICAL + 1)
    try:
        arval.ArduinoValidationGenerator("verif", "x", "extended", "valdb", vd, dict(blacklist or {})).generate_files(str(out))
    except BaseException as e:  # noqa
        v.violation("c19:renderer-raises:%s" % type(e).__name__, "ArduinoValidationGenerator raised", {"error": repr(e)[:300]})
        return
    idx = ["#include <stdio.h>", "#include <AceTime.h>", "#include <ace_time/testing/ValidationDataType.h>", '#include "validation_data.h"',
           "using namespace ace_time;", "struct E { const char* zone; const testing::ValidationData* d; };", "static const E kAll[] = {"]
    for z in sorted(data):
        idx.append('  {"%s", &valdb::kValidationData%s},' % (z, tr.normalize_name(z)))
    idx += ["};", "int main() {", "  for (const E& e : kAll) {", "    printf(\"Z %s %u\\n\", e.zone, e.d->numItems);",
            "    for (uint16_t i = 0; i < e.d->numItems; i++) { const testing::ValidationItem& t = e.d->items[i];",
            "      printf(\"%d %d %d %d %u %u %u %u %u %s %c\\n\", t.epochSeconds, t.timeOffsetMinutes, t.deltaOffsetMinutes, t.year, t.month, t.day, t.hour, t.minute, t.second, t.abbrev ? t.abbrev : \"<null>\", t.type); }",
            "  }", "  return 0;", "}"]
    (out / "valread.cpp").write_text("\n".join(idx) + "\n")
    try:
        exe = vlib.build(out / "valread.cpp", "sanrec", extra_sources=[out / "validation_data.cpp"], includes=[out], with_db=False)
    except vlib.BuildError as e:
        v.violation("c19:rendered-tables-do-not-compile", "rendered validation tables do not compile", {"error": str(e)[-1200:]})
        return
    p = subprocess.run([str(exe)], capture_output=True, text=True, timeout=600, env={**__import__("os").environ, **vlib.SANREC_ENV})
    for b in vlib.parse_sanitizer(p.stderr):
        v.violation("%s@%s" % (b["kind"], vlib.site_key(b)), "sanitizer report reading rendered tables", b)
    cur, got = None, {}
    for ln in p.stdout.splitlines():
        f = ln.split(" ")
        if f[0] == "Z":
            cur = f[1]
            got[cur] = []
        elif cur is not None and len(f) == 11:
            got[cur].append(f)
    for z, items in data.items():
        g = got.get(z)
        if g is None or len(g) != len(items):
            v.violation("c19:rendered-item-count", "rendered table has a different number of items", {"zone": z, "rendered": None if g is None else len(g), "items": len(items)})
            continue
        for it, f in zip(items, g):
            counters["rendered_items"] = counters.get("rendered_items", 0) + 1
            if blacklist and blacklist.get(z):
                k = "rendered_items_of_blacklisted_zones" + ("_of_type_a_or_b" if it["type"] in "ab" else "")
                counters[k] = counters.get(k, 0) + 1
            # the tables hold minutes: a sub-minute offset is cut toward zero, the way the compiler cuts STDOFF/SAVE in the zone
            # tables these data are compared with (-0:44:30 -> -0:44), never away from zero
            want = [str(it["epoch"]), str(int(it["total_offset"] / 60)), str(int(it["dst_offset"] / 60)), str(it["y"]), str(it["M"]), str(it["d"]),
                    str(it["h"]), str(it["m"]), str(it["s"]), it["abbrev"] if it["abbrev"] else "<null>", it["type"]]
            if it["total_offset"] % 60 or it["dst_offset"] % 60:
                counters["rendered_items_with_sub_minute_offsets"] = counters.get("rendered_items_with_sub_minute_offsets", 0) + 1
            if f != want:
                v.violation("c19:rendering-changes-item", "a rendered item differs from the collected item", {"zone": z, "item": it, "rendered": f})
                break


def run(tier):
    v = Verdict("C19", tier)
    seed = vlib.seed()
    rng = random.Random(seed)
    q = tier == "quick"
    import pytz
    from dateutil.tz import gettz
    pz = sorted(pytz.all_timezones)
    dz = [z for z in pz if gettz(z) is not None]
    configs = []
    render_zones = set(rng.sample(pz, 40 if q else 200))
    for z in pz:
        configs.append({"lib": "pytz", "zone": z, "start": 2000, "until": 2038, "interval": 22, "keep_items": z in render_zones})
    for z in dz:
        configs.append({"lib": "dateutil", "zone": z, "start": 2000, "until": 2038, "interval": 22})
    # ranges ending just after known year-end transitions, several sampling intervals
    tgt = [("pytz",) + t for t in year_end_targets("pytz", pz)] + [("dateutil",) + t for t in year_end_targets("dateutil", dz)]
    rng.shuffle(tgt)
    intervals = [6, 12, 20, 22, 24, 36, 48]   # a day or more is legal too (and exercises whole-day arithmetic)
    per_lib = {"pytz": 0, "dateutil": 0}
    for lib, z, y, ts in tgt:
        if per_lib[lib] >= (30 if q else 200):
            continue
        # choose (start, interval) so that the change falls into the *last, partial* sampling cell of the range
        hi = int(dt.datetime(y + 1, 1, 1, tzinfo=UTC).timestamp())
        picked = 0
        picked_partial = 0
        for sy in (y - 2, y - 1, y, y - 3):
            if sy < 2000:
                continue
            lo = int(dt.datetime(sy, 1, 1, tzinfo=UTC).timestamp())
            for iv in intervals:
                step = iv * 3600
                last_grid = lo + ((hi - lo - 1) // step) * step
                partial = (hi - lo) % step != 0          # the last cell is shorter than the sampling interval
                if last_grid < ts < hi:
                    # two ranges whose last cell is a full interval and two whose last cell is a partial one
                    if partial and picked_partial < 2:
                        configs.append({"lib": lib, "zone": z, "start": sy, "until": y + 1, "interval": iv})
                        picked_partial += 1
                    elif not partial and picked < 2:
                        configs.append({"lib": lib, "zone": z, "start": sy, "until": y + 1, "interval": iv})
                        picked += 1
        picked += picked_partial
        if picked:
            per_lib[lib] += 1
    # ranges STARTING in the year of a change that happens in the first hours of that year (the search must begin at
    # start_year-01-01T00:00 UTC, not at the zone's local midnight)
    stgt = [("pytz",) + t for t in year_start_targets("pytz", pz)] + [("dateutil",) + t for t in year_start_targets("dateutil", dz)]
    rng.shuffle(stgt)
    per_start = {"pytz": 0, "dateutil": 0}
    for lib, z, y, ts in stgt:
        if per_start[lib] >= (25 if q else 300):
            continue
        configs.append({"lib": lib, "zone": z, "start": y, "until": y + 1 + (per_start[lib] % 2), "interval": rng.choice([12, 22, 36])})
        per_start[lib] += 1
    lattice = [(2000, 2010), (2005, 2020), (2010, 2011), (2020, 2037), (2001, 2002), (2036, 2041), (2037, 2039), (2040, 2043)]     # ranges reaching past 2038 too: both libraries answer there
    n_lat = 40 if q else 2000
    for _ in range(n_lat):
        lib = rng.choice(["pytz", "dateutil"])
        z = rng.choice(pz if lib == "pytz" else dz)
        s, u = rng.choice(lattice)
        configs.append({"lib": lib, "zone": z, "start": s, "until": u, "interval": rng.choice(intervals), "detect_dst": rng.random() < 0.8})
    work = vlib.scratch()
    shards = [configs[i::4 * N] for i in range(4 * N)]
    jobs = []
    for i, sh in enumerate(shards):
        wf, of = work / ("w%03d.json" % i), work / ("o%03d.json" % i)
        wf.write_text(json.dumps({"configs": sh}))
        jobs.append((wf, of))

    def one(job):
        wf, of = job
        p = subprocess.run([sys.executable, str(VERIF / "py" / "c19worker.py"), str(wf), str(of)], capture_output=True, text=True, timeout=7000)
        return of, p
    tot, samples, data = {}, [], {}
    with cf.ThreadPoolExecutor(max_workers=N) as ex:
        for of, p in ex.map(one, jobs):
            if p.returncode != 0 or not of.exists():
                v.inconclusive_because("C19 worker failed: " + p.stderr[-400:])
                continue
            o = json.loads(of.read_text())
            for w in o["witnesses"]:
                v.violation(w["key"], w["what"], w)
            for e in o.get("machinery_errors", []):
                v.inconclusive_because("worker machinery error: %r" % e)
            for k, n in o["counters"].items():
                tot[k] = tot.get(k, 0) + n
            samples += o["samples"][:1]
            data.update(o.get("data", {}))
    if data:
        render_and_read_back(v, data, work, tot)
        # the same items in a data set flagged the way the Java generator flags its output (abbreviations / DST offsets "not
        # valid for comparison"): the flags steer the generated tests, the tables must still carry every number and string
        few = {z: data[z] for z in sorted(data)[:8]}
        render_and_read_back(v, few, work, tot, has_valid_abbrev=False, has_valid_dst=False, tag="render-flags-off")
        render_and_read_back(v, few, work, tot, has_valid_abbrev=False, has_valid_dst=True, tag="render-abbrev-off")
        # java.time's short display names are not bounded by the six characters of a TZ database abbreviation ("GMT-03:00"
        # for zones without a localized name): strings of any length are carried as they are
        longab = {}
        for zi, z in enumerate(sorted(few)):
            longab[z] = []
            for k, it in enumerate(few[z]):
                it2 = dict(it)
                it2["abbrev"] = ("GMT%+03d:00" % (it["total_offset"] // 3600)) if k % 3 else ("X" * (7 + (k + zi) % 9))
                longab[z].append(it2)
                tot["rendered_items_with_long_abbreviations"] = tot.get("rendered_items_with_long_abbreviations", 0) + 1
        render_and_read_back(v, longab, work, tot, has_valid_abbrev=False, has_valid_dst=True, tag="render-long-abbrev")
    # items with negative and positive sub-minute offsets (pytz rounds to minutes, dateutil does not): years before the zones
    # moved to whole minutes, collected by the real dateutil generator and rendered
    try:
        from compare_dateutil.tdgenerator import TestDataGenerator as DUGen
        old_data = {}
        for zn, (sy, uy) in {"Africa/Monrovia": (1970, 1973), "Europe/Amsterdam": (1935, 1938)}.items():   # inside the 32-bit epoch range (1931-12-14 onwards)
            if zn in dz:
                items = DUGen(sy, uy, 22, True)._create_test_items_for_zone(zn)
                if items:
                    old_data[zn] = items
        if old_data:
            tot["old_sub_minute_zones"] = len(old_data)
            render_and_read_back(v, old_data, work, tot, tag="render-sub-minute")
        # a blacklist ("partial" / "full" per zone) steers what the generated tests compare for a zone; the tables still carry
        # every collected item, including the DST-only pairs (types 'a', 'b') that the blacklist is about
        bl_data = {}
        for zn, (sy, uy) in {"America/Argentina/Buenos_Aires": (2000, 2002), "Asia/Aqtau": (2004, 2006), "Europe/Istanbul": (2016, 2018),
                             "America/Los_Angeles": (2000, 2002), "Europe/Dublin": (2000, 2002), "Africa/Windhoek": (2000, 2002),
                             "Europe/Prague": (2000, 2002)}.items():
            if zn in dz:
                items = DUGen(sy, uy, 22, True)._create_test_items_for_zone(zn)
                if items:
                    bl_data[zn] = items
        if bl_data:
            names = sorted(bl_data)
            render_and_read_back(v, bl_data, work, tot, tag="render-blacklist-partial", blacklist={z: "partial" for z in names})
            render_and_read_back(v, bl_data, work, tot, tag="render-blacklist-mixed", blacklist={z: ("full" if i % 2 else "partial") for i, z in enumerate(names)})
            render_and_read_back(v, bl_data, work, tot, tag="render-blacklist-mixed2", blacklist={z: ("partial" if i % 2 else "full") for i, z in enumerate(names)})
        if data:
            some = {z: data[z] for z in sorted(data)[8:20]}
            if some:
                render_and_read_back(v, some, work, tot, tag="render-blacklist-pytz", blacklist={z: ("full" if i % 3 == 0 else "partial") for i, z in enumerate(sorted(some))})
    except Exception as e:  # noqa  machinery: the generator itself is judged in the workers
        v.inconclusive_because("sub-minute rendering set could not be collected: %r" % (e,))
    # the generators as they are used: test_data_generator.py as a script, zone names on stdin (with comment and blank lines),
    # validation_data.json out. Every zone given that the library resolves must be in the file with exactly the items the
    # generator class yields for it (those are judged above); the stated range and flags must be the ones asked for.
    e2e_zones = ["America/Los_Angeles", "Europe/London", "EST5EDT", "Etc/GMT+5", "Europe/Kiev", "Asia/Pyongyang", "Africa/Casablanca",
                 "Australia/Lord_Howe", "Etc/UTC", "Pacific/Apia", "America/Caracas", "Asia/Kathmandu"]
    for lib, known in (("pytz", set(pz)), ("dateutil", set(dz))):
        odir = work / ("e2e-" + lib)
        odir.mkdir()
        stdin_text = "# zones\n\n" + "\n".join("  %s  " % z if i % 3 == 0 else z for i, z in enumerate(e2e_zones)) + "\n\n# end\n"
        pr = subprocess.run([sys.executable, str(REPO / "tools" / ("compare_" + lib) / "test_data_generator.py"), "--start_year", "2010", "--until_year", "2013",
                             "--sampling_interval", "20", "--output_dir", str(odir)], input=stdin_text, capture_output=True, text=True, timeout=1800,
                            cwd=str(REPO / "tools" / ("compare_" + lib)), env={**os.environ, "PYTHONPATH": str(REPO / "tools")})
        jf = odir / "validation_data.json"
        if pr.returncode != 0 or not jf.exists():
            v.violation("c19:generator-script-failed", "test_data_generator.py failed on a plain list of zones", {"lib": lib, "rc": pr.returncode, "stderr": pr.stderr[-400:]})
            continue
        vd = json.loads(jf.read_text())
        mod = importlib.import_module("compare_%s.tdgenerator" % lib)
        tot["e2e_runs"] = tot.get("e2e_runs", 0) + 1
        if (vd.get("start_year"), vd.get("until_year")) != (2010, 2013) or vd.get("source") != lib:
            v.violation("c19:generator-script-header", "validation_data.json does not state the range / source it was asked for", {"lib": lib, "stated": [vd.get("start_year"), vd.get("until_year"), vd.get("source")]})
        for z in e2e_zones:
            if z not in known:
                continue
            tot["e2e_zones"] = tot.get("e2e_zones", 0) + 1
            want_items = mod.TestDataGenerator(2010, 2013, 20)._create_test_items_for_zone(z)
            got_items = vd["test_data"].get(z)
            if got_items is None or got_items != json.loads(json.dumps(want_items)):
                v.violation("c19:generator-script-drops-or-alters-zone", "a zone given on stdin is missing from validation_data.json or carries other items than the generator class yields",
                            {"lib": lib, "zone": z, "in_file": None if got_items is None else len(got_items), "generator_items": None if want_items is None else len(want_items)})
        extra = set(vd["test_data"]) - set(e2e_zones)
        if extra:
            v.violation("c19:generator-script-extra-zone", "validation_data.json holds a zone that was not asked for", {"lib": lib, "zones": sorted(extra)[:5]})
    # the third generator, tools/compare_java/TestDataGenerator.java (java.time): compiled with javac and run as its Makefile
    # runs it; oracle = java.time itself through an independent probe (java/Probe.java: changes found by scanning and
    # bisecting getOffset/getDaylightSavings, not by nextTransition). Zone lists contain names java.time does not know, in
    # first / middle / last position: the output must stay well-formed and complete for the known zones.
    import shutil
    if not (shutil.which("javac") and shutil.which("java")):
        v.inconclusive_because("no JDK: the java.time generator was not exercised")
    else:
        jdir = work / "java"
        jdir.mkdir()
        pc = subprocess.run(["javac", "-d", str(jdir), str(VERIF / "java" / "Probe.java"), str(REPO / "tools" / "compare_java" / "TestDataGenerator.java")],
                            capture_output=True, text=True, timeout=600)
        if pc.returncode != 0:
            v.violation("c19:java-generator-does-not-compile", "TestDataGenerator.java does not compile", {"stderr": pc.stderr[-600:]})
        else:
            def probe(lines):
                pr_ = subprocess.run(["java", "-cp", str(jdir), "Probe"], input="\n".join(lines) + "\n", capture_output=True, text=True, timeout=600)
                return pr_.stdout.splitlines()
            known = ["America/Los_Angeles", "Europe/London", "Australia/Lord_Howe", "Asia/Kathmandu", "America/Caracas", "Pacific/Apia", "Africa/Casablanca", "Etc/UTC"]
            lists = {"all-known": known,
                     "unknown-first": ["AAA/Nowhere"] + known, "unknown-middle": known[:4] + ["Europe/Nowhere"] + known[4:],
                     "unknown-last": known + ["Zzz/Nowhere"], "two-unknown": ["AAA/Nowhere"] + known[:3] + ["Mid/Nowhere"] + known[3:] + ["Zzz/Nowhere"]}
            sy, uy = 2009, 2013
            for lname, zl in lists.items():
                rdir = jdir / ("run-" + lname)
                rdir.mkdir()
                pg = subprocess.run(["java", "-cp", str(jdir), "TestDataGenerator", "--start_year", str(sy), "--until_year", str(uy)],
                                    input="# zones\n\n" + "\n".join(zl) + "\n", capture_output=True, text=True, timeout=900, cwd=str(rdir))
                tot["java_runs"] = tot.get("java_runs", 0) + 1
                jf = rdir / "validation_data.json"
                try:
                    jd = json.loads(jf.read_text())
                except Exception as e:  # noqa
                    v.violation("c19:java-generator-output-malformed", "validation_data.json written by the java.time generator is not well-formed JSON",
                                {"zone_list": lname, "zones": zl, "rc": pg.returncode, "error": repr(e)[:200]})
                    continue
                kz = [ln.split()[1] for ln in probe(["Z " + z for z in zl]) if ln.endswith(" known")]
                if sorted(jd["test_data"]) != sorted(kz) or (jd.get("start_year"), jd.get("until_year")) != (sy, uy):
                    v.violation("c19:java-generator-zone-set", "the java.time generator's output does not hold exactly the zones java.time knows (or states another range)",
                                {"zone_list": lname, "in_file": sorted(jd["test_data"]), "known": sorted(kz)})
                    continue
                for z in kz:
                    items = jd["test_data"][z]
                    by_epoch = {it["epoch"]: it for it in items}
                    tot["java_zones"] = tot.get("java_zones", 0) + 1
                    q_ = ["C %s %d %d" % (z, sy, uy)] + ["S %s %d %d 1 0" % (z, y, mth) for y in range(sy, uy) for mth in range(1, 13)] + \
                         ["S %s %d 12 31 23" % (z, y) for y in range(sy, uy)] + ["I %s %d" % (z, it["epoch"]) for it in items]
                    ans = probe(q_)
                    changes = [int(x.split()[1]) for x in ans if x.startswith("C ") and x != "C end"]
                    samples_ = [int(x.split()[1]) for x in ans if x.startswith("S ")]
                    infos_ = [x.split()[1:] for x in ans if x.startswith("I ")]
                    for ch in changes:
                        tot["java_changes"] = tot.get("java_changes", 0) + 1
                        if ch - 1 not in by_epoch or ch not in by_epoch:
                            v.violation("c19:transition-not-bracketed", "a change java.time exhibits inside the range has no item pair on either side of it",
                                        {"lib": "java.time", "zone": z, "change_epoch": ch})
                            break
                    miss = [e for e in samples_ if e not in by_epoch]
                    if miss:
                        v.violation("c19:sample-missing", "a monthly / year-end sample is missing", {"lib": "java.time", "zone": z, "missing_epochs": miss[:4]})
                    for it, inf in zip(items, infos_):
                        tot["java_items_checked"] = tot.get("java_items_checked", 0) + 1
                        got = [it["total_offset"], it["dst_offset"], it["y"], it["M"], it["d"], it["h"], it["m"], it["s"]]
                        if [int(x) for x in inf] != got:
                            v.violation("c19:item-differs-from-library", "an item's fields are not what the library reports at its epoch",
                                        {"lib": "java.time", "zone": z, "item": it, "library": inf})
                            break
            if tot.get("java_zones", 0) < 30 or tot.get("java_changes", 0) < 50:
                v.inconclusive_because("the java.time generator was not exercised enough: %r" % {k: n for k, n in tot.items() if k.startswith("java")})
    if tot.get("e2e_zones", 0) < 16:
        v.inconclusive_because("the generator scripts were not exercised end to end: %r" % {k: n for k, n in tot.items() if k.startswith("e2e")})
    if tot.get("rendered_items_of_blacklisted_zones_of_type_a_or_b", 0) < 4 or tot.get("rendered_items_of_blacklisted_zones", 0) < 200:
        v.inconclusive_because("too few items of blacklisted zones rendered: %r" % {k: n for k, n in tot.items() if "blacklist" in k})
    if tot.get("configs", 0) < 500 or tot.get("library_changes", 0) < 5000 or tot.get("rendered_items", 0) < 5000:
        v.inconclusive_because("deciding counters too low: %r" % tot)
    v.coverage.update({
        "evaluations": tot.get("items_checked", 0) + tot.get("library_changes", 0) + tot.get("samples_expected", 0) + tot.get("rendered_items", 0),
        "distinct_nontrivial": tot.get("changes_bracketed", 0),
        "rule": "the real pytz and dateutil TestDataGenerators are run for every zone the installed libraries know (2000..2038, 22 h "
                "sampling), for (zone, year) pairs where the library's own table has a change on Dec 30/31 with ranges ending just "
                "after it and intervals {6,12,20,22,24,36,48} h, and for a seeded lattice of ranges; oracle = the library's own transition "
                "table (pytz _utc_transition_times/_transition_info, dateutil _trans_list_utc/_trans_idx) filtered to changes its "
                "API exhibits: each must have items at the two adjacent minutes; each item must equal astimezone() at its epoch; "
                "monthly and year-end samples must exist. Two changes inside one sampling cell and sub-minute changes are counted, "
                "not judged. Rendering: %d zones through ArduinoValidationGenerator, compiled and read back through "
                "testing::ValidationData (ASan+UBSan). distinct = distinct (config, change) pairs bracketed." % len(data),
        "samples": samples[:5],
        "counters": tot,
    })
    return v.finish()
