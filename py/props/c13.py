"""C13 - SystemClock keeps exact time from millis(), across counter wrap-around."""
import vlib
from vlib import VERIF, Verdict, build, run_shards

N = vlib.NCPU


def run(tier):
    v = Verdict("C13", tier)
    drv = VERIF / "native" / "clocks.cpp"
    fast = build(drv, "fast", with_db=False)
    san = build(drv, "sanrec", with_db=False)
    seed = vlib.seed()
    tot = {}
    samples = []

    def go(exe, args, san_mode, what):
        r = run_shards(exe, args, san=san_mode, timeout=3000)
        v.absorb(r, what)
        for k, n in r.counters.items():
            tot[k] = tot.get(k, 0) + n
        samples.extend(r.samples)
        return r

    allgaps = tier == "thorough"
    pair_args = [["--mode", "c13pairs", "--shard", "%d/%d" % (i, 4 * N)] + (["--allgaps"] if allgaps else [])
                 for i in range(4 * N)]
    r = go(fast, pair_args, None, "c13pairs")
    exhaustive = allgaps and not r.crashes and not r.timeouts
    steps = 400000 if tier == "quick" else 20000000
    go(fast, [["--mode", "c13sched", "--shard", i, "--seed", seed, "--steps", steps] for i in range(N)], None, "c13sched")
    go(san, [["--mode", "c13sched", "--shard", 100 + i, "--seed", seed, "--steps", steps // 20] for i in range(N)],
       "rec", "c13sched(san)")
    go(san, [["--mode", "c13pairs", "--shard", "%d/%d" % (i * 257 % 4096, 4096)] for i in range(N)], "rec", "c13pairs(san)")
    if tot.get("c13.pairs", 0) < 65536 * 1000 or tot.get("c13.sched_reads", 0) < 10000 or tot.get("c13.loop_poller_schedules_longer_than_16_bits", 0) < 500:
        v.inconclusive_because("deciding counters too low: %r" % tot)
    v.coverage.update({
        "evaluations": tot.get("c13.pairs", 0) + tot.get("c13.sched_reads", 0) + tot.get("c13.sched_sets", 0),
        "distinct_nontrivial": tot.get("c13.pairs", 0) // (1 if allgaps else 3) if tot.get("c13.pairs") else 0,
        "rule": "set-poll-poll from a fresh clock for every start phase (counter mod 65536) x %s, with the counter straddling "
                "2^32 / 2^16 / 2^31; second poll at the largest admissible gap. Plus seeded multi-step schedules (gaps <= 64536 "
                "ms between polls) mixing getNow, setNow(new / current reading / cached value / +-1) and setNow(invalid), "
                "checked online against T + floor((m-m0)/1000) on true 64-bit elapsed time, monotonicity, isInit, "
                "getLastSyncTime. distinct = distinct (phase, gap) pairs." % (
                    "every gap 1..64536 (exhaustive)" if allgaps else
                    "gaps {1..1100, k*1000+-2, 64000..64536, 300 seeded} on 3 counter bases"),
        "samples": samples[:8],
        "counters": tot,
        "exhaustive": bool(exhaustive),
    })
    v.assumptions += ["millis() injected through the protected virtual clockMillis(); host unsigned long is 64 bit, the "
                      "injected counter is truncated to 32 bit to model the Arduino counter",
                      "model F (setNow of the cached value is a no-op) is used only to classify a deviation under the known "
                      "mechanism c13:setnow-equal-cached-value-keeps-old-phase"]
    return v.finish()
