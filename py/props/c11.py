"""C11 - zone ids are djb2(name), unique, shared by all databases, stable; registries sorted; links exact."""
import importlib
import json
import sys

import srcparse
import vlib
from vlib import REPO, VERIF, Verdict, build, run_shards


def gen_symbols(outdir):
    parts = []
    meta = {}
    # link targets as recorded at the pinned release: an independent record, so that a consistent hand edit of the generated
    # .h comment and .cpp reference is still seen (used only while the shipped files state the same TZ version)
    base = json.loads((VERIF / "data" / "links_baseline.json").read_text())
    meta["link_edits"] = []
    for db, ns, tag in (("zonedb", "basic", "Basic"), ("zonedbx", "extended", "Ext")):
        d = srcparse.parse_zone_infos_h(REPO / "src" / "ace_time" / db / "zone_infos.h")
        meta[db] = d
        name2sym = {name: sym for sym, name in d["zones"]}
        id_by_name = {name: sym for sym, val, name in d["ids"]}
        parts.append("struct Sym%s { const char* name; uint32_t idconst; const %s::ZoneInfo* zi; };" % (tag, ns))
        parts.append("static const Sym%s kSyms%s[] = {" % (tag, tag))
        for sym, name in d["zones"]:
            idsym = id_by_name.get(name)
            parts.append('  {"%s", %s, &%s::%s},' % (name, ("%s::%s" % (db, idsym)) if idsym else "0", db, sym))
        parts.append("};\nstatic const int kNumSyms%s = %d;" % (tag, len(d["zones"])))
        parts.append("struct Link%s { const char* link; const char* target; const %s::ZoneInfo* linkzi; const %s::ZoneInfo* targetzi; };"
                     % (tag, ns, ns))
        parts.append("static const Link%s kLinks%s[] = {" % (tag, tag))
        same_version = ("tag/%s" % base["tz_version"]) in (REPO / "src" / "ace_time" / db / "zone_infos.h").read_text()
        for sym, link, target in d["links"]:
            bt = base["links"].get(db, {}).get(link) if same_version else None
            if bt is not None and bt != target:
                meta["link_edits"].append({"db": db, "link": link, "header_says": target, "release_record": bt})
                target = bt            # the compiled comparison below is made against the release record
            tsym = name2sym.get(target)
            parts.append('  {"%s", "%s", &%s::%s, %s},' % (link, target, db, sym,
                                                           ("&%s::%s" % (db, tsym)) if tsym else "nullptr"))
        parts.append('  {nullptr, nullptr, nullptr, nullptr}\n};\nstatic const int kNumLinks%s = %d;' % (tag, len(d["links"])))
    (outdir / "gen_symbols.inc").write_text("\n".join(parts) + "\n")
    return meta


def id_constants_denote_zones(v, c, d, where):
    """Every published kZoneId<S> constant belongs to the symbol kZone<S>: if that is a zone, the constant is the djb2 of the
    zone's name; if it is a link reference, the constant must be the id of the zone the link denotes (a link has no id of its
    own: its reference IS the target's ZoneInfo); a constant without a symbol is a violation as well."""
    zone_by_sym = {sym: name for sym, name in d["zones"]}
    link_by_sym = {sym: (link, target) for sym, link, target in d["links"]}
    for sym, val, cname in d["ids"]:
        c["id_constants_checked"] = c.get("id_constants_checked", 0) + 1
        zsym = "kZone" + sym[len("kZoneId"):]
        if zsym in zone_by_sym:
            want, denotes = srcparse.djb2(zone_by_sym[zsym]), zone_by_sym[zsym]
        elif zsym in link_by_sym:
            want, denotes = srcparse.djb2(link_by_sym[zsym][1]), "%s -> %s" % link_by_sym[zsym]
        else:
            v.violation("c11:id-constant-without-zone-symbol", "a kZoneId constant has no kZone symbol of the same name", {"where": where, "constant": sym})
            continue
        if val != want:
            v.violation("c11:id-constant-is-not-the-id-of-the-zone-its-symbol-denotes",
                        "a published kZoneId<S> constant differs from the zoneId of the zone that kZone<S> denotes",
                        {"where": where, "constant": sym, "value": "0x%08x" % val, "symbol_denotes": denotes, "that_zones_id": "0x%08x" % want})


def run(tier):
    v = Verdict("C11", tier)
    out = vlib.scratch()
    meta = gen_symbols(out)
    for e in meta.pop("link_edits"):
        v.violation("c11:link-target-differs-from-release-record", "a shipped link names a different target zone than the record of the same TZ release", e)
    exe = build(VERIF / "native" / "registry.cpp", "sanrec", defines=["VERIF_HAVE_SYMBOLS=1"], includes=[out])
    r = run_shards(exe, [["--mode", "c11"]], san="rec", timeout=1800)
    v.absorb(r, "c11")
    c = dict(r.counters)
    ids = {"zonedb": {}, "zonedbx": {}}
    for i in r.infos:
        ids[i["db"]][i["name"]] = i["id"]
    # --- declarations vs header bookkeeping
    for db in ("zonedb", "zonedbx"):
        d = meta[db]
        cz, cl = d["counts"].get("Supported zones"), d["counts"].get("Supported links")
        if (cz is not None and cz != len(d["zones"])) or (cl is not None and cl != len(d["links"])):
            v.violation("c11:header-count-mismatch", "%s: 'Supported zones/links' counters != declarations" % db,
                        {"counts": d["counts"], "zones": len(d["zones"]), "links": len(d["links"])})
        if len(d["ids"]) != len(d["zones"]) or {n for _, _, n in d["ids"]} != {n for _, n in d["zones"]}:
            v.violation("c11:id-constants-vs-zones", "%s: kZoneId constants do not cover exactly the declared zones" % db, None)
        id_constants_denote_zones(v, c, d, db)
        for sym, link, target in d["links"]:
            if target not in {n for _, n in d["zones"]}:
                v.violation("c11:link-target-undeclared", "%s: link %s -> %s has no declared target" % (db, link, target), None)
    # --- python-side hash, own djb2, baseline
    sys.path.insert(0, str(REPO / "tools"))
    transformer = importlib.import_module("tzdb.transformer")
    baseline = json.loads((VERIF / "data" / "zone_ids_baseline.json").read_text())["ids"]
    n_hash = n_base = 0
    for db, m in ids.items():
        for name, zid in m.items():
            n_hash += 1
            if transformer.hash_name(name) != zid:
                v.violation("c11:python-hash-differs", "tools hash_name(name) != C++ zone id", {"db": db, "zone": name, "id": zid,
                                                                                                "hash_name": transformer.hash_name(name)})
            if srcparse.djb2(name) != zid:
                v.violation("c11:id-not-djb2", "zone id != djb2(name) (python oracle)", {"db": db, "zone": name})
            if name in baseline:
                n_base += 1
                if baseline[name] != zid:
                    v.violation("c11:id-changed-from-baseline", "zone id differs from the recorded release", {"zone": name, "id": zid,
                                                                                                              "baseline": baseline[name]})
    # edge inputs for the python hash
    for s in ("", "a", "Z" * 64, "Etc/GMT+12", "é"):
        try:
            if transformer.hash_name(s) != (srcparse.djb2(s) if s.isascii() else transformer.hash_name(s)):
                v.violation("c11:python-hash-differs", "hash_name != djb2 on a synthetic name", {"name": s})
        except Exception as e:  # noqa
            v.violation("c11:python-hash-raises", "hash_name raised", {"name": s, "error": repr(e)})
    # names with edge-valued hashes and a seeded population of random printable names: hash_name is the 32-bit djb2, nothing else
    import os as _os
    import random as _random
    rng = _random.Random(int(_os.environ.get("VERIF_SEED", "1")) * 7919 + 11)
    pop = ["Test/Hafszjqta", "Test/Hafszjqtb", "Test/Hahhvdnhb", "Test/Hahhvdnhc", "Test/Hamhisdeg", "Test/Hamhisdeh", "Test/Hafszjvrc"]
    alphabet = "ABCDEFGHIJKLMNOPQRSTUVWXYZabcdefghijklmnopqrstuvwxyz0123456789/_-+"
    for _ in range(20000 if tier == "quick" else 400000):
        pop.append("".join(rng.choice(alphabet) for _ in range(rng.choice((1, 2, 3, 5, 8, 13, 21, 30)))))
    n_rand = 0
    for s_ in pop:
        n_rand += 1
        if transformer.hash_name(s_) != srcparse.djb2(s_):
            v.violation("c11:python-hash-differs", "hash_name != djb2 on a synthetic name", {"name": s_, "hash_name": transformer.hash_name(s_), "djb2": srcparse.djb2(s_)})
    c["synthetic_names_hashed"] = n_rand
    # --- checked-in python database
    zi = importlib.import_module("zonedbpy.zone_infos")
    n_py = 0
    common_py = 0
    seen_records = {}
    for name in zi.ZONE_INFO_MAP:
        n_py += 1
        # the map key must denote its own record: a record is reached under its own full name and under no other
        rec = zi.ZONE_INFO_MAP[name]
        if rec.get("name") != name or id(rec) in seen_records:
            v.violation("c11:python-db-key-denotes-another-zone", "a name of the Python database denotes the record of another zone",
                        {"key": name, "record_name": rec.get("name"), "also_reached_as": seen_records.get(id(rec))})
        seen_records[id(rec)] = name
        h = transformer.hash_name(name)
        if name in ids["zonedbx"]:
            common_py += 1
            if h != ids["zonedbx"][name]:
                v.violation("c11:python-db-id-differs", "python database name hashes to a different id than zonedbx", {"zone": name})
        if name in baseline and baseline[name] != h:
            v.violation("c11:python-db-id-differs", "python database name hashes to a different id than the baseline", {"zone": name})
    hs = {}
    for name in zi.ZONE_INFO_MAP:
        h = transformer.hash_name(name)
        if h in hs:
            v.violation("c11:id-collision", "two python-database zones share an id", {"a": name, "b": hs[h]})
        hs[h] = name
    # --- freshly compiled source (tzdata 2025b, both scopes): generated registry order, ids, links
    import re
    import c03worker
    import tzpipe
    import tzsrc
    p25, _ = c03worker.tz2025b(True)
    indir = tzpipe.write_input_dir(tzsrc.render_long(p25), out / "in25")
    gens, comps = {}, {}
    try:
        for scope, ns in (("extended", "gendbx"), ("basic", "gendb")):
            comp = tzpipe.compile_source(indir, scope, 2000, 2050)
            comps[scope] = comp
            gens[scope] = out / ("gen-" + scope)
            tzpipe.generate_arduino(comp, gens[scope], ns)
        objs = []
        for sc in gens:
            objs += vlib.build_gen_objects([gens[sc] / f for f in ("zone_infos.cpp", "zone_policies.cpp", "zone_registry.cpp")], "sanrec",
                                           includes=[gens[sc]], outdir=out / ("obj-" + sc))
        # the published constants of the fresh headers, by compiled value: {name, kZoneIdXxx, &kZoneXxx} per declared zone
        parts = []
        for scope, ns, nsk, tag in (("basic", "gendb", "basic", "Basic"), ("extended", "gendbx", "extended", "Ext")):
            d = srcparse.parse_zone_infos_h(gens[scope] / "zone_infos.h")
            id_constants_denote_zones(v, c, d, "fresh 2025b " + scope)
            id_by_name = {name: sym for sym, val, name in d["ids"]}
            parts.append('#include "%s"' % (gens[scope] / "zone_infos.h"))
            parts.append("struct GenSym%s { const char* name; uint32_t idconst; int hasId; const %s::ZoneInfo* zi; };" % (tag, nsk))
            parts.append("static const GenSym%s kGenSyms%s[] = {" % (tag, tag))
            for sym, name in d["zones"]:
                idsym = id_by_name.get(name)
                parts.append('  {"%s", %s, %d, &%s::%s},' % (name, ("%s::%s" % (ns, idsym)) if idsym else "0", 1 if idsym else 0, ns, sym))
            parts.append("};\nstatic const int kNumGenSyms%s = %d;" % (tag, len(d["zones"])))
            if not d["zones"]:
                v.inconclusive_because("no kZone declarations recognised in the freshly generated %s zone_infos.h" % scope)
        (out / "gen_symbols_fresh.inc").write_text("\n".join(parts) + "\n")
        defs = ["VERIF_GEN_REGISTRY_H=\"%s\"" % (gens["extended"] / "zone_registry.h"), "VERIF_GEN_REGISTRY_H2=\"%s\"" % (gens["basic"] / "zone_registry.h"),
                "VERIF_EXT_NS=gendbx", "VERIF_BASIC_NS=gendb", "VERIF_GEN_SYMBOLS_INC=\"%s\"" % (out / "gen_symbols_fresh.inc")]
        gexe = build(VERIF / "native" / "registry.cpp", "sanrec", defines=defs, extra_objects=objs, name="registry_gen")
        rg = run_shards(gexe, [["--mode", "c11gen"]], san="rec", timeout=900)
        v.absorb(rg, "c11gen")
        c.update(rg.counters)
        if not rg.counters.get("c11.generated_symbols"):
            v.inconclusive_because("the constants of the freshly generated headers were never compared")
        for i in rg.infos:
            scope = i.get("gen")
            if scope and sorted(i["names"]) != sorted(comps[scope].tzdb["zones_map"]):
                v.violation("c11:generated-registry-zone-set", "generated registry does not list exactly the emitted zones", {"scope": scope})
        for scope, gen in gens.items():
            txt = (gen / "zone_infos.cpp").read_text()
            got = dict(re.findall(r"^const \w+::ZoneInfo& kZone(\w+) = kZone(\w+);", txt, re.M))
            want = {transformer.normalize_name(l): transformer.normalize_name(t) for l, t in comps[scope].tzdb["links_map"].items()}
            c["generated_links_checked"] = c.get("generated_links_checked", 0) + len(want)
            if got != want:
                v.violation("c11:generated-link-wrong-target", "generated link references do not denote the source's targets",
                            {"scope": scope, "diff": sorted(set(got.items()) ^ set(want.items()))[:6]})
            for l, t in comps[scope].tzdb["links_map"].items():
                if p25["links"].get(l) != t:
                    v.violation("c11:generated-link-wrong-target", "emitted link target differs from the source", {"scope": scope, "link": l})
    except (tzpipe.CompilerDied, vlib.BuildError) as e:
        v.violation("c11:fresh-compilation-failed", "fresh compilation of tzdata 2025b failed", {"error": str(e)[-600:]})
    # --- link targets on the hand-written sources as well (a link listed twice: if it is emitted it must denote zic's
    #     choice, the LAST line; links to zones that are removed; names that fold to the same C++ symbol)
    for pid, prog in (("features", c03worker.features()), ("unsupported", c03worker.unsupported())):
        ldir = tzpipe.write_input_dir(tzsrc.render_long(prog), out / ("in-links-" + pid))
        for scope in ("extended", "basic"):
            try:
                lc = tzpipe.compile_source(ldir, scope, 2000, 2050)
            except tzpipe.CompilerDied as e:
                v.inconclusive_because("source %s could not be compiled (C03 judges that): %s" % (pid, repr(e.exc)[:200]))
                continue
            # every emitted zone or link name must own its C++ symbol (names that differ only in '-', '_', '+' fold together)
            sym = {}
            for nm in list(lc.tzdb["zones_map"]) + list(lc.tzdb["links_map"]):
                k = transformer.normalize_name(nm)
                if k in sym:
                    v.violation("c11:generated-names-share-a-symbol", "two emitted zone / link names fold to the same C++ symbol, so one of them cannot denote its own zone",
                                {"program": pid, "scope": scope, "a": sym[k], "b": nm, "symbol": "kZone" + k})
                sym[k] = nm
            c["handwritten_symbols_checked"] = c.get("handwritten_symbols_checked", 0) + len(sym)
            for l, t in lc.tzdb["links_map"].items():
                c["handwritten_links_checked"] = c.get("handwritten_links_checked", 0) + 1
                if prog["links"].get(l) != t or t not in lc.tzdb["zones_map"]:
                    v.violation("c11:generated-link-wrong-target", "an emitted link does not denote the zone the source (as read by zic: last Link line wins) gives it",
                                {"program": pid, "scope": scope, "link": l, "emitted_target": t, "source_target": prog["links"].get(l)})
    # --- uniqueness is a promise about every database the compiler emits: a source with names whose djb2 hashes collide
    #     ('Test/Ab' / 'Test/BA': 33*'A'+'b' == 33*'B'+'A') must be refused or come out with distinct ids
    coll = ("Zone Test/Ab 1:00 - AAA\nZone Test/BA 2:00 - BBB\nZone Test/Plain 3:00 - CCC\n"
            "Zone Test/AaQ 4:00 - DDD\nZone Test/Ab0 5:00 - EEE\n")          # 'aQ' / 'b0': 33*'a'+'Q' == 33*'b'+'0'
    assert srcparse.djb2("Test/Ab") == srcparse.djb2("Test/BA") and srcparse.djb2("Test/AaQ") == srcparse.djb2("Test/Ab0")
    cdir = tzpipe.write_input_dir(coll, out / "in-collide")
    for scope in ("extended", "basic"):
        c["collision_sources_compiled"] = c.get("collision_sources_compiled", 0) + 1
        try:
            cc = tzpipe.compile_source(cdir, scope, 2000, 2050)
        except tzpipe.CompilerDied:
            c["collision_sources_refused"] = c.get("collision_sources_refused", 0) + 1
            continue
        seen_ids = {}
        for name, zi in cc.zone_infos.items():
            zid = transformer.hash_name(name)
            if zid in seen_ids:
                v.violation("c11:compiler-emits-colliding-ids", "the compiler emitted a database in which two zones share an id",
                            {"scope": scope, "a": seen_ids[zid], "b": name, "id": "0x%08x" % zid})
            seen_ids[zid] = name
    # --- ids at the edges of the 32-bit range: names whose djb2 is 0, 1, 2^31-1, 2^31, 2^32-2, 2^32-1 and the hash's own
    #     start value go through the real compiler and generator; the id written into zone_infos.cpp and the constant
    #     published in zone_infos.h must both be the djb2 of the full name (0 is not a reserved value in the property)
    special = ["Test/Hafszjqta", "Test/Hafszjqtb", "Test/Hahhvdnhb", "Test/Hahhvdnhc", "Test/Hamhisdeg", "Test/Hamhisdeh", "Test/Hafszjvrc"]
    assert [srcparse.djb2(n) for n in special] == [0, 1, 0x7FFFFFFF, 0x80000000, 0xFFFFFFFE, 0xFFFFFFFF, 5381]
    for half, names in (("a", special[0::2]), ("b", special[1::2])):      # 0 and 1 in different sources: a hash that avoids 0 must not be masked by a collision refusal
      spsrc = "".join("Zone %s %d:00 - T%02d\n" % (n, i + 1, i) for i, n in enumerate(names)) + "Link %s Test/Alias_%s\n" % (names[0], half)
      sdir = tzpipe.write_input_dir(spsrc, out / ("in-special-ids-" + half))
      for scope, ns in (("extended", "spdbx"), ("basic", "spdb")):
          try:
              sc = tzpipe.compile_source(sdir, scope, 2000, 2050)
              sgen = out / ("gen-special-%s-%s" % (half, scope))
              tzpipe.generate_arduino(sc, sgen, ns)
          except tzpipe.CompilerDied as e:
              v.violation("c11:fresh-compilation-failed", "a source whose names hash to the edges of the 32-bit range could not be compiled",
                          {"scope": scope, "error": repr(e.exc)[:300]})
              continue
          d = srcparse.parse_zone_infos_h(sgen / "zone_infos.h")
          id_constants_denote_zones(v, c, d, "edge ids %s %s" % (half, scope))
          consts = {name: val for sym, val, name in d["ids"]}
          cpp = (sgen / "zone_infos.cpp").read_text()
          emitted = dict((n, int(x, 16)) for n, x in re.findall(r'kZoneName\w+\[\] \w* ?= "([^"]+)";.*?(0x[0-9a-f]+) /\*zoneId\*/', cpp, re.S))
          for n in names:
              c["special_ids_checked"] = c.get("special_ids_checked", 0) + 1
              if n not in sc.zone_infos:
                  v.violation("c11:special-id-zone-not-emitted", "a plain fixed-offset zone whose name hashes to an edge value was not emitted", {"scope": scope, "zone": n})
                  continue
              want = srcparse.djb2(n)
              if consts.get(n) != want or emitted.get(n) != want:
                  v.violation("c11:generated-id-is-not-djb2", "the id the generator writes for a zone is not the djb2 hash of its full name",
                              {"scope": scope, "zone": n, "djb2": "0x%08x" % want, "header_constant": consts.get(n), "zone_infos_cpp": emitted.get(n)})
    if c.get("special_ids_checked", 0) < 14:
        v.inconclusive_because("the edge-valued ids were not all examined")
    c.update({"python_hash_checked": n_hash, "baseline_checked": n_base, "python_db_names": n_py, "python_db_common": common_py})
    if c.get("c11.generated_registry_entries", 0) < 600 or c.get("c11.registry_entries", 0) < 600 or c.get("c11.links", 0) < 300 or n_base < 300 or common_py < 300:
        v.inconclusive_because("deciding counters too low: %r" % c)
    v.coverage.update({
        "evaluations": c.get("c11.registry_entries", 0) + c.get("c11.symbols", 0) + c.get("c11.links", 0) + n_hash + n_py
        + c.get("c11.generated_registry_entries", 0) + c.get("generated_links_checked", 0),
        "distinct_nontrivial": len(set(ids["zonedb"]) | set(ids["zonedbx"])) + sum(len(meta[d]["links"]) for d in meta),
        "rule": "every registry entry, every declared kZone*/kZoneId* symbol (compiled value, through a generated table linked "
                "against the real headers) and every declared link reference of zonedb and zonedbx; C++ djb2 and Python djb2 "
                "oracles; tools hash_name on every name; recorded id baseline; names of tools/zonedbpy; plus a fresh compilation of tzdata "
                "2025b in both scopes: generated registries compiled and checked for strictly ascending order, djb2 ids, uniqueness, "
                "findability of every entry through the library's own lookup, and link references vs the source. distinct = distinct zone "
                "names + distinct links.",
        "samples": [{"zone": n, "id": "0x%08x" % i} for n, i in list(ids["zonedbx"].items())[:4]]
        + [{"link": l, "target": t} for _, l, t in meta["zonedbx"]["links"][:3]],
        "counters": c,
        "exhaustive": True,
    })
    v.assumptions += ["baseline data/zone_ids_baseline.json was recorded from this release's headers (ids cross-checked with djb2)",
                      "declarations are found by parsing the generated header's regular layout"]
    return v.finish()
