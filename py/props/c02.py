"""C02 - basic zones match zic too, and agree with extended on shared zones."""
import os
import vlib
from props.c01 import sweep_property


def run(tier):
    v, tot = sweep_property("C02", "basic", "zonedb", tier, cross=True)
    if tot is not None:
        if os.environ.get(vlib.GUARD) != "1":
            v.inconclusive_because("hook guard %s is off: dropped transitions are not observable" % vlib.GUARD)
        if tot.get("sweep.cross_zones", 0) < 200 or tot.get("sweep.hook_checked_zones", 0) < 268 or \
                tot.get("sweep.cache_fills_checked", 0) < 268 * 100:
            v.inconclusive_because("cross/hook counters too low: %r" % {k: tot.get(k) for k in (
                "sweep.cross_zones", "sweep.hook_checked_zones", "sweep.cache_fills_checked")})
        v.coverage["rule"] += (" C02 additions: every zone also present in zonedbx is compared probe by probe with the extended "
                               "processor (no oracle needed); the guarded hook counts transitions dropped by the full 5-slot "
                               "cache (must be 0); after every year fill 1999..2050 (ascending and descending) the cache is read "
                               "through the friend class: <= 5 entries, sorted by start time.")
    return v.finish()
