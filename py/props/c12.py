"""C12 - zone tables are a faithful encoding: C++ decode equals what was encoded; shipped tables == generator output."""
import importlib
import itertools
import json
import re
import sys

import tzpipe
import vlib
import zicoracle
from vlib import REPO, VERIF, Verdict, build, run_shards

MIN_YEAR, MAX_YEAR, MAX_UNTIL_YEAR = 0, 9999, 10000
SUFFIXES = ['w', 's', 'u']
MULTI = ['AA', 'BST', 'CAT', 'DD', 'EEST', 'LONG', 'WAT', 'XY', 'ZZZZ', 'QQ', 'RRR', 'SSSS', 'TT', 'UUU', 'VVVV', 'WW', 'XXX',
         'YYYY', 'AB', 'ABC', 'ABCD', 'BC', 'BCD', 'BCDE', 'CD', 'CDE', 'CDEF', 'DE', 'DEF', 'DEFG', 'EF']          # 31 strings
SINGLE = ['-'] + [chr(c) for c in range(ord('A'), ord('Z') + 1)]
FORMATS = ['GMT', 'P%sT', '%s', 'GMT/BST', '+03/+04', 'E%sT', '-00', 'A/B', 'LMT', 'CE%sT']


def to_tiny(y):
    return -127 if y == MIN_YEAR else (126 if y == MAX_YEAR else y - 2000)


def synth(scope, rng=None, n_random=0):
    """Synthetic raw eras/rules covering the full product of admissible values per encoded field
    (each field's whole value set, combined cyclically), plus n_random entries whose fields are drawn independently."""
    # every year the compiler admits (transformer.is_year_tiny: 1872..2127) plus the two markers; 1872/1873 and 2126/2127 share
    # their codes with the invalid / min / max markers in MEANING, but the code written must still be year - 2000
    years = list(range(1872, 2128)) + [MIN_YEAR, MAX_YEAR]
    deltas = [m * 60 for m in range(-60, 166, 15)]                       # -1:00 .. +2:45
    offsets = [m * 60 for m in (range(-720, 841) if scope == 'extended' else range(-720, 841, 15))]
    ons = [(dow, dom) for dow in range(0, 8) for dom in range(-31, 32)]
    rules_flat = []
    k = 0
    for t in range(0, 1501):
        for suf in SUFFIXES:
            dow, dom = ons[k % len(ons)]
            letter = (SINGLE + MULTI)[k % (len(SINGLE) + len(MULTI))] if scope == 'extended' else SINGLE[k % len(SINGLE)]
            fy = years[k % len(years)]
            ty = years[(k * 7 + 3) % len(years)]
            rules_flat.append({
                'fromYear': fy, 'toYear': ty, 'inMonth': k % 12 + 1, 'onDay': 'x', 'onDayOfWeek': dow, 'onDayOfMonth': dom,
                'atTime': 'x', 'atTimeSuffix': suf, 'atSeconds': t * 60, 'atSecondsTruncated': t * 60,
                'deltaOffset': 'x', 'deltaSeconds': deltas[k % len(deltas)], 'deltaSecondsTruncated': deltas[k % len(deltas)],
                'letter': letter, 'rawLine': 'Rule synthetic %d' % k,
            })
            k += 1
    for i in range(n_random):
        t = rng.randrange(0, 1501)
        dow, dom = rng.choice(ons)
        rules_flat.append({
            'fromYear': rng.choice(years), 'toYear': rng.choice(years), 'inMonth': rng.randrange(1, 13), 'onDay': 'x', 'onDayOfWeek': dow,
            'onDayOfMonth': dom, 'atTime': 'x', 'atTimeSuffix': rng.choice(SUFFIXES), 'atSeconds': t * 60, 'atSecondsTruncated': t * 60,
            'deltaOffset': 'x', 'deltaSeconds': 0, 'deltaSecondsTruncated': rng.choice(deltas),
            'letter': rng.choice(SINGLE + MULTI) if scope == 'extended' else rng.choice(SINGLE), 'rawLine': 'Rule random %d' % i})
        rules_flat[-1]['deltaSeconds'] = rules_flat[-1]['deltaSecondsTruncated']
    # every (year, year) combination is too many; make sure each year appears as FROM and as TO, each ON pair, each delta
    rules_map = {}
    for i in range(0, len(rules_flat), 180):
        rules_map['P%03d' % (i // 180)] = rules_flat[i:i + 180]
    pol_names = sorted(rules_map)
    until_years = list(range(1874, 2127)) + [MAX_UNTIL_YEAR]
    eras_flat = []
    k = 0
    cases = [(t, suf) for t in range(0, 1501) for suf in SUFFIXES]
    n = max(len(cases), len(offsets))
    for k in range(n):
        t, suf = cases[k % len(cases)]
        off = offsets[k % len(offsets)]
        mode = k % 3
        if mode == 0:
            rules, rd = '-', 0
        elif mode == 1 and scope == 'extended':
            rules, rd = ':', deltas[k % len(deltas)] or 900
        elif mode == 1:
            rules, rd = '-', 0
        else:
            rules, rd = pol_names[k % len(pol_names)], 0
        eras_flat.append({
            'offsetString': 'x', 'rules': rules, 'format': FORMATS[k % len(FORMATS)], 'untilYear': until_years[k % len(until_years)],
            'untilYearOnly': False, 'untilMonth': k % 12 + 1, 'untilDayString': 'x', 'untilDay': k % 31 + 1, 'untilTime': 'x',
            'untilTimeSuffix': suf, 'untilSeconds': t * 60, 'untilSecondsTruncated': t * 60, 'offsetSeconds': off,
            'offsetSecondsTruncated': off, 'rulesDeltaSeconds': rd, 'rulesDeltaSecondsTruncated': rd, 'rawLine': 'era synthetic %d' % k,
        })
    for i in range(n_random):
        t = rng.randrange(0, 1501)
        mode = rng.randrange(3)
        if mode == 1 and scope == 'extended':
            rules, rd = ':', rng.choice([d for d in deltas if d])
        elif mode == 2:
            rules, rd = rng.choice(pol_names), 0
        else:
            rules, rd = '-', 0
        off = rng.choice(offsets)
        eras_flat.append({
            'offsetString': 'x', 'rules': rules, 'format': rng.choice(FORMATS), 'untilYear': rng.choice(until_years), 'untilYearOnly': False,
            'untilMonth': rng.randrange(1, 13), 'untilDayString': 'x', 'untilDay': rng.randrange(1, 32), 'untilTime': 'x',
            'untilTimeSuffix': rng.choice(SUFFIXES), 'untilSeconds': t * 60, 'untilSecondsTruncated': t * 60, 'offsetSeconds': off,
            'offsetSecondsTruncated': off, 'rulesDeltaSeconds': rd, 'rulesDeltaSecondsTruncated': rd, 'rawLine': 'era random %d' % i})
    zones_map = {}
    for i in range(0, len(eras_flat), 150):
        zones_map['Syn/Z%03d' % (i // 150)] = eras_flat[i:i + 150]
    return zones_map, rules_map


SYNTH_YEARS = {'basic': (1974, 2038), 'extended': (1980, 2100)}   # the validity range written to kZoneContext: not the shipped 2000/2050


def synth_tzdb(scope, rng=None, n_random=0):
    zones_map, rules_map = synth(scope, rng, n_random)
    tr = importlib.import_module("tzdb.transformer")
    return {
        'tz_version': 'synthetic', 'tz_files': [], 'scope': scope, 'start_year': SYNTH_YEARS[scope][0], 'until_year': SYNTH_YEARS[scope][1],
        'until_at_granularity': 60, 'offset_granularity': 60 if scope == 'extended' else 900, 'strict': False,
        'zones_map': zones_map, 'links_map': {}, 'rules_map': rules_map, 'removed_zones': {}, 'removed_links': {},
        'removed_policies': {}, 'notable_zones': {}, 'notable_links': {}, 'notable_policies': {},
        'format_strings': tr.create_format_strings(zones_map, rules_map), 'zone_strings': tr.create_zone_strings(zones_map),
    }


def expected_rule(r):
    return {"fromYearTiny": to_tiny(r['fromYear']), "toYearTiny": to_tiny(r['toYear']), "inMonth": r['inMonth'],
            "onDayOfWeek": r['onDayOfWeek'], "onDayOfMonth": r['onDayOfMonth'], "atTimeMinutes": r['atSecondsTruncated'] // 60,
            "atTimeSuffix": r['atTimeSuffix'], "deltaMinutes": r['deltaSecondsTruncated'] // 60, "letter": r['letter']}


def expected_era(e):
    named = e['rules'] not in ('-', ':')
    return {"offsetMinutes": e['offsetSecondsTruncated'] // 60 if e['offsetSecondsTruncated'] >= 0 else -((-e['offsetSecondsTruncated']) // 60),
            "deltaMinutes": 0 if named else e['rulesDeltaSecondsTruncated'] // 60,
            "format": e['format'].replace('%s', '%'),
            "untilYearTiny": 127 if e['untilYear'] == MAX_UNTIL_YEAR else e['untilYear'] - 2000, "untilMonth": e['untilMonth'],
            "untilDay": e['untilDay'], "untilTimeMinutes": e['untilSecondsTruncated'] // 60, "untilTimeSuffix": e['untilTimeSuffix']}


def compare_dump(v, scope, dump, zones_map, rules_map, tag, counters, years=(2000, 2050)):
    pols = {p["id"]: p for p in dump["policies"]}
    seen_fields = set()
    zmap = {z["name"]: z for z in dump["zones"]}
    if set(zmap) != set(zones_map):
        v.violation("c12:%s-zone-set-differs" % tag, "decoded zone set differs from what was encoded",
                    {"scope": scope, "missing": sorted(set(zones_map) - set(zmap))[:5], "extra": sorted(set(zmap) - set(zones_map))[:5]})
    for name, eras in zones_map.items():
        z = zmap.get(name)
        if z is None:
            continue
        counters["zone_year_ranges"] = counters.get("zone_year_ranges", 0) + 1
        if (z["startYear"], z["untilYear"]) != tuple(years):
            v.violation("c12:%s-zone-field:startYear/untilYear" % tag, "the validity range read back through the ZoneInfoBroker differs from the range the tables were generated for",
                        {"scope": scope, "zone": name, "got": [z["startYear"], z["untilYear"]], "want": list(years)})
        if z["numEras"] != len(eras):
            v.violation("c12:%s-era-count" % tag, "numEras differs", {"scope": scope, "zone": name, "got": z["numEras"], "want": len(eras)})
            continue
        for i, (era, got) in enumerate(zip(eras, z["eras"])):
            counters["eras"] = counters.get("eras", 0) + 1
            want = expected_era(era)
            for f, wv in want.items():
                seen_fields.add(("era", f, wv if not isinstance(wv, str) else wv))
                if got[f] != wv:
                    v.violation("c12:%s-era-field:%s" % (tag, f), "era field read back through the broker differs from the encoded value",
                                {"scope": scope, "zone": name, "era": i, "field": f, "decoded": got[f], "encoded": wv, "raw": era.get('rawLine')})
                    break
            named = era['rules'] not in ('-', ':')
            if named != (got["policy"] >= 0):
                v.violation("c12:%s-era-policy-presence" % tag, "era policy pointer presence differs",
                            {"scope": scope, "zone": name, "era": i})
            elif named:
                pr = pols[got["policy"]]["rules"]
                rr = rules_map[era['rules']]
                if len(pr) != len(rr):
                    v.violation("c12:%s-policy-rule-count" % tag, "numRules differs", {"scope": scope, "policy": era['rules'], "got": len(pr), "want": len(rr)})
                    continue
                key = (scope, era['rules'])
                if key in counters.setdefault("_done", set()):
                    continue
                counters["_done"].add(key)
                for j, (rule, g) in enumerate(zip(rr, pr)):
                    counters["rules"] = counters.get("rules", 0) + 1
                    want = expected_rule(rule)
                    for f, wv in want.items():
                        seen_fields.add(("rule", f, wv))
                        if g[f] != wv:
                            v.violation("c12:%s-rule-field:%s" % (tag, f), "rule field read back through the broker differs from the encoded value",
                                        {"scope": scope, "policy": era['rules'], "rule": j, "field": f, "decoded": g[f], "encoded": wv, "raw": rule.get('rawLine')})
                            break
    counters["distinct_field_values"] = counters.get("distinct_field_values", 0) + len(seen_fields)


def canon(text):
    """Code only: comments (// ... and /* ... */, which hold the invocation, memory statistics and field labels) are
    dropped, so that a reworded comment template is not mistaken for a changed table.  The source-line comments are
    what the regeneration starts from, so they are covered by construction."""
    text = re.sub(r"/\*.*?\*/", "", text, flags=re.S)
    out = []
    for ln in text.splitlines():
        s = ln.split("//", 1)[0]
        s = " ".join(s.split())
        if s:
            out.append(s)
    return out


def run(tier):
    v = Verdict("C12", tier, "translation_validation")
    sys.path.insert(0, str(REPO / "tools"))
    work = vlib.scratch()
    counters = {}
    samples = []
    programs = 0
    # ---------------------------------------------------------------- A: synthetic product through the real encoder
    gens = {}
    tzdbs = {}
    for scope, ns in (("extended", "gendbx"), ("basic", "gendb")):
        import random
        tzdb = synth_tzdb(scope, random.Random(vlib.seed() * 7 + len(scope)), 0 if tier == "quick" else 6000)
        tzdbs[scope] = tzdb

        class C:
            pass
        c = C()
        c.tzdb = tzdb
        arg = importlib.import_module("zonedb.argenerator")
        gen = work / ("syn-" + scope)
        gen.mkdir()
        try:
            g = arg.ArduinoGenerator(invocation="verif-synthetic", db_namespace=ns, generate_zone_strings=False, tzdb=tzdb,
                                     buf_sizes={z: 5 for z in tzdb['zones_map']})
            import logging
            logging.getLogger().setLevel(logging.CRITICAL + 1)
            g.generate_files(str(gen))
        except BaseException as e:  # noqa
            v.violation("c12:generator-raises:%s" % type(e).__name__, "ArduinoGenerator raised on admissible synthetic values",
                        {"scope": scope, "error": repr(e)[:400]})
            continue
        gens[scope] = gen
        programs += 1
    if len(gens) == 2:
        defs = ["VERIF_GEN_REGISTRY_H=\"%s\"" % (gens["extended"] / "zone_registry.h"),
                "VERIF_GEN_REGISTRY_H2=\"%s\"" % (gens["basic"] / "zone_registry.h"),
                "VERIF_EXT_NS=gendbx", "VERIF_BASIC_NS=gendb"]
        srcs = [gens[s] / f for s in gens for f in ("zone_infos.cpp", "zone_policies.cpp", "zone_registry.cpp")]
        # the two scopes generate files of the same name: compile each set with its own include dir first
        try:
            objs = []
            for s in gens:
                o = vlib.build_gen_objects([gens[s] / f for f in ("zone_infos.cpp", "zone_policies.cpp", "zone_registry.cpp")],
                                           "sanrec", includes=[gens[s]], outdir=work / ("obj-" + s))
                objs += o
            exe = build(VERIF / "native" / "codec.cpp", "sanrec", defines=defs, extra_objects=objs, name="codec_syn")
        except vlib.BuildError as e:
            v.violation("c12:generated-code-does-not-compile", "tables generated from admissible values do not compile", {"error": str(e)[-1200:]})
            exe = None
        if exe:
            r = run_shards(exe, [["--db", "both"]], san="rec", timeout=900)
            v.absorb(r, "codec(synthetic)")
            for d in r.infos:
                scope = d["kind"]
                cnt = {}
                compare_dump(v, scope, d, tzdbs[scope]['zones_map'], tzdbs[scope]['rules_map'], "synthetic", cnt, years=SYNTH_YEARS[scope])
                for k, n in cnt.items():
                    if k != "_done":
                        counters["syn.%s.%s" % (scope, k)] = n
                samples.append({"kind": "synthetic", "scope": scope, "zone": d["zones"][0]["name"], "era0": d["zones"][0]["eras"][0]})
    # ---------------------------------------------------------------- A2: the same value classes given as TEXT to the whole compiler
    #   (extractor + transformer + generator): signs, zero hour fields ("-0:30"), bare hours ("2"), seconds fields ("0:30:00")
    def hm(m, style):
        sign = "-" if m < 0 else ""
        a_ = abs(m)
        if style == 1 and a_ % 60 == 0:
            return "%s%d" % (sign, a_ // 60)
        if style == 2:
            return "%s%d:%02d:00" % (sign, a_ // 60, a_ % 60)
        return "%s%d:%02d" % (sign, a_ // 60, a_ % 60)
    saves = list(range(-60, 166, 15))
    ats = [0, 1, 14, 15, 16, 59, 60, 61, 119, 120, 121, 600, 1439, 1440, 1441, 1499, 1500]
    for scope, ns in (("extended", "txtdbx"), ("basic", "txtdb")):
        stdoffs = (list(range(-59, 60)) + [-720, -719, -601, -271, -44, 330, 345, 525, 765, 839, 840]) if scope == "extended" else \
                  (list(range(-720, 841, 15)))
        want_z, want_p, want_ab, lines = {}, {}, {}, []

        def zn_of(k_):
            return "Txt/Z%d" % k_
        for k, off in enumerate(stdoffs):
            sv, at, fx = saves[k % len(saves)], ats[k % len(ats)], saves[(k * 7 + 3) % len(saves)]
            if scope == "basic":
                at -= at % 15
            suf = "wsu"[k % 3]
            pol = "Txt%d" % k
            if sv == 0:
                sv = 60
            # LETTERs: one character, several characters (index into the policy's letters array: the first and the second
            # in sorted order both occur), and '-' (no letter)
            l1, l2 = [("D", "S"), ("DD", "SS"), ("-", "S"), ("XYZ", "AB")][k % 4]
            lines.append("Rule %s 1990 max - Mar Sun>=8 %s%s %s %s" % (pol, hm(at, k % 3), "" if suf == "w" else suf, hm(sv, (k + 1) % 3), l1))
            lines.append("Rule %s 1990 max - Oct Sun>=8 2:00 0 %s" % (pol, l2))
            want_p[pol] = (3, at, suf, sv)
            want_ab[zn_of(k)] = ("T%sT" % ("" if l1 == "-" else l1), "T%sT" % l2)
            zn = "Txt/Z%d" % k
            if scope == "extended":
                lines.append("Zone %s %s %s T%%sT 2020 Jun 1 %s%s" % (zn, hm(off, k % 3), pol, hm(ats[(k + 5) % len(ats)], (k + 2) % 3), "" if suf == "w" else suf))
                lines.append("\t\t\t%s %s TXT" % (hm(off, (k + 1) % 3), hm(fx, 2 * (k % 2)) if fx else "-"))     # RULES column: never bare hours (read as a policy name)
                want_z[zn] = [(off, None, ats[(k + 5) % len(ats)], suf), (off, fx, 0, "w")]
            else:
                lines.append("Zone %s %s %s T%%sT 2020" % (zn, hm(off, k % 3), pol))       # basic scope: year-only UNTIL, no fixed SAVE in RULES
                lines.append("\t\t\t%s - TXT" % hm(off, (k + 1) % 3))
                want_z[zn] = [(off, None, 0, "w"), (off, 0, 0, "w")]
        try:
            tdir = tzpipe.write_input_dir("\n".join(lines) + "\n", work / ("in-text-" + scope))
            tc = tzpipe.compile_source(tdir, scope, 2000, 2050)
            tgen = work / ("txt-" + scope)
            tzpipe.generate_arduino(tc, tgen, ns)
            objs = vlib.build_gen_objects([tgen / f for f in ("zone_infos.cpp", "zone_policies.cpp", "zone_registry.cpp")], "sanrec",
                                          includes=[tgen], outdir=work / ("obj-txt-" + scope))
            defs = ["VERIF_GEN_REGISTRY_H=\"%s\"" % (tgen / "zone_registry.h"), "VERIF_EXT_NS=%s" % ns] if scope == "extended" else \
                   ["VERIF_GEN_REGISTRY_H2=\"%s\"" % (tgen / "zone_registry.h"), "VERIF_BASIC_NS=%s" % ns]
            texe = build(VERIF / "native" / "codec.cpp", "sanrec", defines=defs, extra_objects=objs, name="codec_txt_" + scope)
        except tzpipe.CompilerDied as e:
            v.violation("c12:compiler-raises-on-text-values", "the compiler raised on admissible values given as text", {"scope": scope, "error": repr(e.exc)[:400]})
            continue
        except vlib.BuildError as e:
            v.violation("c12:generated-code-does-not-compile", "tables generated from admissible text values do not compile", {"scope": scope, "error": str(e)[-800:]})
            continue
        programs += 1
        rt = run_shards(texe, [["--db", scope, "--abbrev"]], san="rec", timeout=900)
        v.absorb(rt, "codec(text)")
        for d in rt.infos:
            if d["kind"] != scope:
                continue
            pols = {p_["id"]: p_ for p_ in d["policies"]}
            zmap = {z["name"]: z for z in d["zones"]}
            noted = set(tc.tzdb.get("notable_zones", {})) | set(tc.tzdb.get("notable_policies", {}))
            for zn, eras in want_z.items():
                z = zmap.get(zn)
                pol = "Txt" + zn[len("Txt/Z"):]
                if z is None or zn in noted or pol in noted:
                    counters["text.%s.not_compared" % scope] = counters.get("text.%s.not_compared" % scope, 0) + 1
                    continue
                counters["text.%s.zones" % scope] = counters.get("text.%s.zones" % scope, 0) + 1
                got = [(e["offsetMinutes"], None if e["policy"] >= 0 else e["deltaMinutes"], e["untilTimeMinutes"], e["untilTimeSuffix"]) for e in z["eras"]]
                if got != [tuple(x) for x in eras]:
                    v.violation("c12:text-value-decodes-differently", "a value written in a Zone line is read back differently from the generated table",
                                {"scope": scope, "zone": zn, "decoded (stdoff, fixed save, until time, suffix)": got, "source": eras,
                                 "lines": [l for l in lines if zn + " " in l or l.startswith("\t")][:1]})
                    continue
                # the letters as the processor substitutes them into the FORMAT (Mar rule in force in July, Oct rule in December)
                if (z.get("abbrevJul2010"), z.get("abbrevDec2010")) != want_ab[zn]:
                    v.violation("c12:text-value-decodes-differently", "a LETTER written in a Rule line does not come back in the abbreviation the processor builds from the generated table",
                                {"scope": scope, "zone": zn, "abbreviations (Jul 2010, Dec 2010)": [z.get("abbrevJul2010"), z.get("abbrevDec2010")], "expected": list(want_ab[zn])})
                counters["text.%s.abbreviations" % scope] = counters.get("text.%s.abbreviations" % scope, 0) + 2
                pid = z["eras"][0]["policy"]
                rr = {(r_["inMonth"], r_["atTimeMinutes"], r_["atTimeSuffix"], r_["deltaMinutes"]) for r_ in pols[pid]["rules"]} if pid >= 0 else set()
                if want_p[pol] not in rr:
                    v.violation("c12:text-value-decodes-differently", "a value written in a Rule line is read back differently from the generated table",
                                {"scope": scope, "policy": pol, "decoded (month, at, suffix, save)": sorted(rr), "source": want_p[pol]})
    # ---------------------------------------------------------------- B: shipped tables == generator output
    for db, scope, ns in (("zonedbx", "extended", "regenx"), ("zonedb", "basic", "regen")):
        zones, rules, links = zicoracle.reconstruct_source(REPO / "src" / "ace_time" / db)
        text = zicoracle.source_text(zones, rules, links, split=False)
        indir = tzpipe.write_input_dir(text, work / ("in-" + db))
        out = work / ("regen-" + db)
        p = tzpipe.run_tzcompiler(indir, out, scope, "arduino", start_year=2000, until_year=2050, tz_version="2020d")
        if p.returncode != 0:
            v.violation("c12:tzcompiler-failed", "tzcompiler.py failed on the lines recorded beside the shipped tables",
                        {"db": db, "stderr": p.stderr[-800:]})
            continue
        programs += 1
        for f in ("zone_infos.cpp", "zone_policies.cpp", "zone_registry.cpp", "zone_registry.h"):
            a = canon((REPO / "src" / "ace_time" / db / f).read_text())
            b = canon((out / f).read_text())
            counters["text_lines_compared"] = counters.get("text_lines_compared", 0) + len(a)
            if a != b:
                diffs = [(i, x, y) for i, (x, y) in enumerate(itertools.zip_longest(a, b)) if x != y][:5]
                v.violation("c12:shipped-differs-from-generated:%s" % f,
                            "shipped table file differs from what the generator produces from the recorded source lines",
                            {"db": db, "file": f, "first_diffs": diffs, "len_shipped": len(a), "len_generated": len(b)})
        # the .h files: declarations and id constants (removed/notable lists differ by construction: recorded lines hold only kept zones)
        pat = re.compile(r"^(extern const|const uint32_t) ")
        for f in ("zone_infos.h", "zone_policies.h"):
            a = [l for l in canon((REPO / "src" / "ace_time" / db / f).read_text()) if pat.match(l)]
            b = [l for l in canon((out / f).read_text()) if pat.match(l)]
            counters["text_lines_compared"] += len(a)
            if a != b:
                diffs = [(i, x, y) for i, (x, y) in enumerate(itertools.zip_longest(a, b)) if x != y][:5]
                v.violation("c12:shipped-differs-from-generated:%s" % f, "declarations in the shipped header differ from generated",
                            {"db": db, "file": f, "first_diffs": diffs})
    # field-by-field through the brokers: shipped tables as compiled
    exe = build(VERIF / "native" / "codec.cpp", "sanrec", name="codec_shipped")
    r = run_shards(exe, [["--db", "both"]], san="rec", timeout=900)
    v.absorb(r, "codec(shipped)")
    tzpipe.attach_contracts()
    for d in r.infos:
        scope = d["kind"]
        db = "zonedbx" if scope == "extended" else "zonedb"
        c = tzpipe.compile_source(work / ("in-" + db), scope, 2000, 2050)
        cnt = {}
        compare_dump(v, scope, d, c.tzdb['zones_map'], c.tzdb['rules_map'], "shipped", cnt)
        for k, n in cnt.items():
            if k != "_done":
                counters["shipped.%s.%s" % (scope, k)] = n
        # buffer sizes recorded in the shipped table == estimator output
        buf = importlib.import_module("zonedb.bufestimator")
        est, _ = buf.BufSizeEstimator(c.zone_infos, c.zone_policies, 2000, 2050).estimate() if scope == "extended" else ({}, 0)
        for z in d["zones"]:
            if scope == "extended" and est.get(z["name"]) != z["transitionBufSize"]:
                v.violation("c12:shipped-bufsize-differs", "transitionBufSize in the shipped table differs from the estimator's value",
                            {"zone": z["name"], "shipped": z["transitionBufSize"], "estimated": est.get(z["name"])})
        samples.append({"kind": "shipped", "scope": scope, "zone": d["zones"][5]["name"], "era0": d["zones"][5]["eras"][0]})
    need = ["syn.extended.eras", "syn.extended.rules", "syn.basic.eras", "shipped.extended.eras", "shipped.basic.eras"]
    if any(counters.get(k, 0) < 250 for k in need) or counters.get("text.extended.zones", 0) < 100 or counters.get("text.basic.zones", 0) < 30:
        v.inconclusive_because("deciding counters too low: %r" % counters)
    v.coverage.update({
        "programs": programs,
        "disagreements_checked": len(v.violations),
        "evaluations": sum(n for k, n in counters.items() if k.endswith((".eras", ".rules", ".zones"))),
        "distinct_nontrivial": sum(n for k, n in counters.items() if k.endswith("distinct_field_values")),
        "rule": "(A) the real ArduinoGenerator is handed synthetic raw eras/rules covering AT/UNTIL 0:00..25:00 every minute x {w,s,u}, "
                "STDOFF -12:00..+14:00 every minute (basic: every 15 min), SAVE -1:00..+2:45 in 15-min steps on rules and fixed-RULES "
                "eras, FROM/TO 1872..2127 + min + max, UNTIL years 1874..2126 + max, months, days, all ON (weekday, day) pairs, single "
                "and up to 31 multi-character letters per policy; the generated tables are compiled and every field is read back "
                "through ZoneInfo/ZoneEra/ZonePolicy/ZoneRule brokers (codec driver, ASan+UBSan) and compared with the value given. "
                "(A2) the same value classes written as TEXT in Zone/Rule lines (signs, zero hour fields such as -0:30, bare hours, "
                "seconds fields) go through the whole compiler (extractor, transformer, generator) in both scopes and are read back "
                "the same way. "
                "(B) tzcompiler.py (subprocess, recorded flags) is run on the lines recorded beside the shipped zonedb/zonedbx tables: "
                "text comparison of the code (all comments stripped) and field-by-field broker comparison of the "
                "shipped tables with the transformer's output; transitionBufSize vs the estimator. distinct = distinct (field, value) "
                "pairs decoded.",
        "samples": samples[:6],
        "counters": counters,
        "exhaustive": True,
        "info_year_codes_aliasing": "years 1872/1873 share tiny codes with the invalid/min markers and are not part of the product",
    })
    return v.finish()
