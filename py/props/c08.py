"""C08 - answers are independent of query history (caches, shared processors, eviction)."""
import vlib
from vlib import VERIF, Verdict, build, run_shards

N = vlib.NCPU
HIST_ENV = {"ASAN_OPTIONS": "detect_leaks=0:halt_on_error=0:handle_segv=0:handle_abort=0:handle_sigfpe=0:handle_sigbus=0:allocator_may_return_null=1"}


def run(tier):
    v = Verdict("C08", tier)
    drv = VERIF / "native" / "history.cpp"
    fast = build(drv, "fast")
    san = build(drv, "sanrec")
    seed = vlib.seed()
    tot, samples = {}, []

    def go(exe, args, san_mode, what, **kw):
        r = run_shards(exe, args, san=san_mode, timeout=7000, env_extra=HIST_ENV if san_mode else None, **kw)
        v.absorb(r, what)
        for k, n in r.counters.items():
            tot[k] = tot.get(k, 0) + n
            tot[what + "." + k] = n
        samples.extend(r.samples)
        return r

    S = 4 * N
    base = ["--prop", "c08", "--seed", seed]
    if tier == "quick":
        go(fast, [base + ["--mode", "pairs", "--shard", "%d/%d" % (i, S)] for i in range(S)], None, "pairs")
        go(san, [base + ["--mode", "pairs", "--zones", 32, "--shard", "%d/%d" % (i, N)] for i in range(N)], "rec", "pairs(san)")
        go(san, [base + ["--mode", "shared", "--steps", 20000, "--shard", "%d/%d" % (i, N)] for i in range(N)], "rec", "shared(san)")
        go(san, [base + ["--mode", "managers", "--steps", 20000, "--shard", "%d/%d" % (i, N)] for i in range(N)], "rec", "managers(san)")
        go(fast, [base + ["--mode", "shared", "--steps", 200000, "--shard", "%d/%d" % (100 + i, N)] for i in range(N)], None, "shared")
        go(fast, [base + ["--mode", "managers", "--steps", 200000, "--shard", "%d/%d" % (100 + i, N)] for i in range(N)], None, "managers")
    else:
        go(fast, [base + ["--mode", "pairs", "--shard", "%d/%d" % (i, S)] for i in range(S)], None, "pairs")
        go(san, [base + ["--mode", "pairs", "--shard", "%d/%d" % (i, S)] for i in range(S)], "rec", "pairs(san)")
        go(san, [base + ["--mode", "shared", "--steps", 1000000, "--shard", "%d/%d" % (i, N)] for i in range(N)], "rec", "shared(san)")
        go(san, [base + ["--mode", "managers", "--steps", 1000000, "--shard", "%d/%d" % (i, N)] for i in range(N)], "rec", "managers(san)")
        go(fast, [base + ["--mode", "shared", "--steps", 4000000, "--shard", "%d/%d" % (100 + i, N)] for i in range(N)], None, "shared")
        go(fast, [base + ["--mode", "managers", "--steps", 4000000, "--shard", "%d/%d" % (100 + i, N)] for i in range(N)], None, "managers")
        vg = build(drv, "vg")
        go(vg, [base + ["--mode", "shared", "--steps", 3000, "--shard", "%d/%d" % (200 + i, N)] for i in range(N)], None,
           "shared(valgrind)", valgrind=True)
    # item 4: the Python reference implementation, random year sequences vs a fresh instance
    import c03lib
    import c03worker
    import tzpipe
    import tzsrc
    import random
    src = c03worker.recon("zonedbx")
    comp = tzpipe.compile_source(tzpipe.write_input_dir(tzsrc.render_long(src), vlib.scratch() / "in"), "extended", 2000, 2050)
    rng = random.Random(seed)
    names = sorted(comp.zone_infos)
    pick = names if tier != "quick" else sorted(set(rng.sample(names, 96)) | {n for n in names if n in ("Asia/Khandyga", "Asia/Dhaka", "Africa/Sao_Tome", "Pacific/Apia")})     # + zones whose offset changes at a New Year
    items = [{"mode": "history", "zone_infos": sh, "segments": {}, "start_year": 2000, "until_year": 2050, "seed": seed + i,
              "steps": 80 if tier == "quick" else 400}
             for i, sh in enumerate(c03lib.shard_dict({n: comp.zone_infos[n] for n in pick}, N))]
    m = c03lib.run_py_workers(items, vlib.scratch() / "pyhist")
    for f in m["failed"]:
        v.inconclusive_because("python history worker failed: " + f["stderr"][-300:])
    for w in m["witnesses"]:
        v.violation(w["key"], w["what"], w)
    tot["python.history_steps"] = m["counters"].get("history_steps", 0)
    tot["python.far_queries"] = m["counters"].get("far_queries", 0)
    tot["python.queries_a_fresh_instance_fails"] = m["counters"].get("fresh_failed", 0)
    tot["python.history_local_steps"] = m["counters"].get("history_local_steps", 0)
    tot["python.new_year_pairs"] = m["counters"].get("new_year_pairs", 0)
    if tot["python.history_steps"] < 1000 or tot["python.queries_a_fresh_instance_fails"] < 50:
        v.inconclusive_because("python history steps too low (or no failing query reached): %r" % {k: n for k, n in tot.items() if k.startswith("python.")})
    if tot.get("pairs.hist.pair_zones", 0) < 655 or tot.get("hist.shared_steps", 0) < 100000 or tot.get("hist.manager_steps", 0) < 100000:
        v.inconclusive_because("deciding counters too low: %r" % tot)
    v.coverage.update({
        "evaluations": tot.get("hist.pair_histories", 0) + tot.get("hist.shared_steps", 0) + tot.get("hist.manager_steps", 0),
        "distinct_nontrivial": tot.get("pairs.hist.pair_histories", 0),
        "rule": "history + executable model, the model being the same code in a pristine state (fresh processor and TimeZone asked "
                "only the one question). (1) every zone of both databases: every ordered pair of 59 arguments (mid-year of "
                "1998..2051, three Jan-1 instants, a year-end second, the sentinel) x every ordered pair of {getUtcOffset, "
                "getDeltaOffset, getAbbrev, getOffsetDateTime}, executed as op1(a); op2(b); op2(b); op1(a) on a fresh object; (2) 2..4 "
                "TimeZone values of different zones bound to one processor, seeded interleavings of 7 operations incl. printTo/"
                "printShortTo as first operation; (3) Basic/ExtendedZoneManager<1..4> holding 2*SIZE+1 zones created by name/id/"
                "index/info, seeded interleavings; (4) the Python ZoneSpecifier on freshly compiled tables: seeded sequences of instants (inside the compiled range, at its edges, and far outside it where the cache fill fails; immediate repeats of a failed query) and "
                "local date-times (with revisits and year-boundary instants) vs a fresh instance per query. Crashes are attributed to the open call by a signal-safe journal; a call that "
                "burns > 4 s CPU is reported as a hang. distinct = distinct (zone, a, b, op1, op2) histories.",
        "samples": samples[:8],
        "counters": tot,
    })
    return v.finish()
