"""C14 - SystemClockLoop sync state machine."""
import vlib
from vlib import VERIF, Verdict, build, run_shards

N = vlib.NCPU


def run(tier):
    v = Verdict("C14", tier)
    drv = VERIF / "native" / "clocks.cpp"
    fast = build(drv, "fast", with_db=False)
    san = build(drv, "sanrec", with_db=False)
    vg = build(drv, "vg", with_db=False) if tier == "thorough" else None
    seed = vlib.seed()
    tot = {}
    sets = {}
    samples = []

    def go(exe, args, san_mode, what, **kw):
        r = run_shards(exe, args, san=san_mode, timeout=3000, **kw)
        v.absorb(r, what)
        for k, n in r.counters.items():
            tot[k] = tot.get(k, 0) + n
        for k, s in r.sets.items():
            sets.setdefault(k, set()).update(s)
        samples.extend(r.samples)
        return r

    depth = 6 if tier == "quick" else 7
    S = 8 * N
    go(fast, [["--mode", "c14enum", "--depth", depth, "--shard", "%d/%d" % (i, S)] for i in range(S)], None, "c14enum")
    go(san, [["--mode", "c14enum", "--depth", depth - 2, "--shard", "%d/%d" % (i, N)] for i in range(N)], "rec", "c14enum(san)")
    walks = 300 if tier == "quick" else 6000
    go(fast, [["--mode", "c14random", "--seed", seed, "--shard", i, "--walks", walks, "--len", 3000] for i in range(N)],
       None, "c14random")
    go(san, [["--mode", "c14random", "--seed", seed, "--shard", 50 + i, "--walks", max(10, walks // 20), "--len", 3000]
             for i in range(N)], "rec", "c14random(san)")
    if vg:
        r = run_shards(vg, [["--mode", "c14random", "--seed", seed, "--shard", 90 + i, "--walks", 6, "--len", 600]
                            for i in range(N)], valgrind=True, timeout=3000)
        v.absorb(r, "c14random(valgrind)")
        for c in r.crashes:
            pass
        tot["c14.valgrind_loop_calls"] = r.counters.get("c14.loop_calls", 0)
    if tot.get("c14.requests", 0) < 1000 or tot.get("c14.valid_applied", 0) < 1000 or tot.get("c14.failures", 0) < 1000 \
            or len(sets.get("c14.states", ())) < 8:
        v.inconclusive_because("deciding counters too low: %r states=%d" % (tot, len(sets.get("c14.states", ()))))
    v.coverage.update({
        "evaluations": tot.get("c14.paths", 0) + tot.get("c14.random_walks", 0),
        "distinct_nontrivial": tot.get("c14.nodes", 0),
        "states": len(sets.get("c14.states", ())),
        "transitions": len(sets.get("c14.edges", ())),
        "rule": "real SystemClockLoop driven by replay from a fresh object: every sequence to depth %d over per-config time "
                "advances {1, 999, timeout+-1, initial, 2*initial+1, syncPeriod (ms), 65000} x reference outcomes {not ready, "
                "valid new, valid same, invalid} (outcomes pruned only when the reference's own log shows readiness was not "
                "consulted in that step), 26 (syncPeriod, initialPeriod, timeout, wiring, response values: ordinary / first value 0, 1, -1 / all negative / alternating ends of the 32-bit range) configurations; plus seeded random "
                "walks of 3000 steps incl. random configurations. Monitors: applied-immediately, backup write, no change "
                "on invalid/timeout (shadow SystemClock fed only valid responses), retry lower bound from the statement's "
                "period sequence, bounded progress, quiet without reference. distinct = distinct enumerated input prefixes; "
                "states/transitions = distinct (FSM state, retry period) pairs and edges read through the friend class." % depth,
        "samples": samples[:8] + [{"fsm_states_seen": sorted(sets.get("c14.states", ()))[:40]}],
        "counters": tot,
    })
    v.assumptions += ["millis() never crosses 2^32 in these runs: the host's unsigned long is 64 bit, so 32-bit wrap of the "
                      "loop's own timers cannot be observed faithfully here",
                      "timekeeping itself is C13's business: the trajectory oracle is a second SystemClock instance that "
                      "receives only the valid responses"]
    return v.finish()
