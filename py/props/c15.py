"""C15 - printed forms are exact ISO-8601 and parse back to the same value."""
import vlib
from vlib import VERIF, Verdict, build, run_shards


def run(tier):
    v = Verdict("C15", tier)
    exe = build(VERIF / "native" / "calendar.cpp", "sanrec")
    r = run_shards(exe, [["--mode", "c15", "--shard", "0/2", "--seed", str(vlib.seed())],
                         ["--mode", "c15", "--shard", "1/2"]], san="rec", timeout=1800)
    v.absorb(r, "c15")
    c = r.counters
    need = {"c15.ldt": 3 * 93136 + 86400, "c15.offset": 11999, "c15.odt": 100000,
            "c15.zdt_zone": 5 * (268 + 387), "c15.short_strings": 30, "c15.placeholders": 6}
    for k, n in need.items():
        if c.get(k, 0) < n:
            v.inconclusive_because("counter %s=%s below %s" % (k, c.get(k, 0), n))
    v.coverage.update({
        "evaluations": sum(n for k, n in c.items() if k.startswith("c15.") and "info" not in k),
        "distinct_nontrivial": c.get("c15.ldt", 0) + c.get("c15.offset", 0) + c.get("c15.odt", 0) + c.get("c15.zdt_zone", 0),
        "rule": "print -> compare with snprintf oracle -> parse -> compare with original, through an in-memory Print: every date "
                "1873..2127 x {00:00:00, 23:59:59, seeded time}; every second of one day; every offset -99:59..+99:59; "
                "OffsetDateTime on every 97th date x all quarter-hour offsets -16:00..+16:00 and all sub-hour offsets -59..+59 "
                "min; ZonedDateTime for every zone of both registries at 5 instants + manual zones; every proper prefix of a valid "
                "string; all error placeholders. Under ASan+UBSan. distinct = distinct printed values.",
        "samples": r.samples[:12],
        "counters": c,
        "info_offsets_beyond_9959_not_judged": c.get("c15.info_offsets_beyond_9959_not_judged", 0),
    })
    v.assumptions += ["Print class and printPad2To from /verif/shim"]
    return v.finish()
