"""C10 - zone lookup by name, id and index is exact and always terminates."""
import vlib
from vlib import VERIF, Verdict, build, run_shards

N = vlib.NCPU


def run(tier):
    v = Verdict("C10", tier)
    exe = build(VERIF / "native" / "registry.cpp", "sanrec")
    maxsize = 16 if tier == "quick" else 40
    seed = vlib.seed()
    r = run_shards(exe, [["--mode", "c10", "--maxsize", maxsize, "--seed", seed, "--shard", "%d/%d" % (i, N)]
                         for i in range(N)], san="rec", timeout=3000)
    v.absorb(r, "c10")
    c = r.counters
    if c.get("c10.registries", 0) < 100 or c.get("c10.absent_lookups", 0) < 1000 or c.get("c10.full_registries", 0) < 2:
        v.inconclusive_because("deciding counters too low: %r" % c)
    v.coverage.update({
        "evaluations": c.get("c10.name_lookups", 0) + c.get("c10.id_lookups", 0) + c.get("c10.index_lookups", 0),
        "distinct_nontrivial": c.get("c10.distinct_gaps", 0),
        "rule": "the real ZoneRegistrar template instantiated with a bounds-recording registry broker and a step-counting "
                "comparator (bound n + 4*ceil(log2(n+1)) + 8 comparisons), and the stock registrar + ZoneManagerImpl on exact-size "
                "heap arrays under ASan+UBSan; registries of every size 0..%d cut from both shipped registries at seeded offsets "
                "(contiguous and scattered), sorted / shuffled / reversed / nearly sorted (first, middle or last two swapped; smallest first with the rest shuffled), plus the two full registries; queries: every present "
                "name, for each present name its proper prefix, two extensions, a just-below name and a case variant, fixed odd "
                "names; every id, id+-1, 0, 0xFFFFFFFF; indices 0..size+1, 0x8000, 0xFFFF. Oracle: first exact match by linear "
                "strcmp scan. distinct = distinct (registry size, gap position) pairs hit by an absent name." % maxsize,
        "samples": r.samples[:6],
        "counters": c,
    })
    return v.finish()
