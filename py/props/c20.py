"""C20 - generated artefacts are deterministic and mutually consistent."""
import concurrent.futures as cf
import datetime as dt
import importlib
import json
import os
import random
import re
import subprocess
import sys
from pathlib import Path

sys.path.insert(0, str(Path(__file__).resolve().parent.parent))

import c03lib
import c03worker
import tzpipe
import tzsrc
import vlib
import zicoracle
from vlib import REPO, VERIF, Verdict

N = vlib.NCPU


def canon_text(text):
    """Only two things may differ between runs: the invocation line and the order of reasons inside one (...) comment."""
    out = []
    for ln in text.splitlines():
        s = ln
        if re.match(r"^\s*(//|#)\s*\$ ", s):      # the invocation line (carries the output directory)
            continue
        m = re.match(r"^(\s*(?://|#).*?\()(.*)(\)\s*)$", s)
        if m and ("', '" in m.group(2) or ", " in m.group(2)):
            inner = m.group(2).strip("[]{}")
            parts = sorted(p.strip().strip("'\"") for p in re.split(r"',\s*'|\",\s*\"|,\s+(?=[A-Z'\"])", inner))
            s = m.group(1) + " | ".join(parts) + m.group(3)
        out.append(s)
    return out


def canon_json(text):
    d = json.loads(text)
    for k in ("removed_zones", "removed_links", "removed_policies", "notable_zones", "notable_links", "notable_policies"):
        if k in d:
            d[k] = {n: sorted(v) for n, v in d[k].items()}
    return d


def reconstruct_py(dbdir):
    """Zone/Rule lines recorded as comments in the checked-in Python database."""
    zones, rules = {}, {}
    cur = None
    lines = (dbdir / "zone_infos.py").read_text().splitlines()
    for i, ln in enumerate(lines):
        m = re.match(r"^# Zone name: (\S+)", ln)
        if m:
            cur = m.group(1)
            zones[cur] = []
            continue
        m = re.match(r"^    #\s+(\S.*?)\s*$", ln)
        if m and cur and i + 1 < len(lines) and lines[i + 1].strip() == "{":
            zones[cur].append(" ".join(m.group(1).split()))
    curp = None
    for ln in (dbdir / "zone_policies.py").read_text().splitlines():
        m = re.match(r"^# Policy name: (\S+)", ln)
        if m:
            curp = m.group(1)
            rules[curp] = []
            continue
        m = re.match(r"^    # (Rule\s+\S.*?)\s*$", ln)
        if m and curp is not None:
            rules[curp].append(" ".join(m.group(1).split()))
    return zones, rules


def seeds_ordering_a_set_differently(words):
    """Two PYTHONHASHSEED values under which a Python set of `words` iterates in different orders (tzcompiler.py walks
    set(args.action.split(','))), found by asking fresh interpreters; falls back to the default pair."""
    seen = {}
    for sd in range(1, 40):
        p = subprocess.run([sys.executable, "-c", "import sys; print(list(set(sys.argv[1:])))"] + list(words), capture_output=True, text=True,
                           env={**os.environ, "PYTHONHASHSEED": str(sd)})
        seen.setdefault(p.stdout.strip(), str(sd))
        if len(seen) >= 2:
            a, b = list(seen.values())[:2]
            return a, b
    return "1", "987654"


def run_twice(job):
    """Two tzcompiler.py subprocesses that differ in hash seed, working directory and output directory."""
    indir, scope, lang, action, work, tag, sy, uy = job[:8]
    seeds = job[8] if len(job) > 8 else ("1", "987654")
    outs = []
    for k, (seed, cwd) in enumerate(((seeds[0], None), (seeds[1], "/"))):
        out = work / ("det-%s-%d" % (tag, k))
        p = tzpipe.run_tzcompiler(indir, out, scope, lang, action=action, start_year=sy, until_year=uy,
                                  env_extra={"PYTHONHASHSEED": seed}, cwd=cwd)
        outs.append((out, p))
    return job, outs


def run(tier):
    v = Verdict("C20", tier, "translation_validation")
    q = tier == "quick"
    seed = vlib.seed()
    rng = random.Random(seed)
    work = vlib.scratch()
    sys.path.insert(0, str(REPO / "tools"))
    counters = {}
    samples = []
    tzpipe.attach_contracts()
    # ------------------------------------------------------------------ sources
    srcs = {}
    srcs["recon-x"] = c03worker.recon("zonedbx")
    srcs["recon-b"] = c03worker.recon("zonedb")
    p25, _ = c03worker.tz2025b(True)
    srcs["tz2025b"] = p25
    srcs["features"] = c03worker.features()
    srcs["unsupported"] = c03worker.unsupported()
    if not q:
        for i in range(6):
            mq, desc, base, sy, uy = c03worker.mutant(seed + 77, i)
            srcs["mutant%d" % i] = mq
    indirs = {k: tzpipe.write_input_dir(tzsrc.render_long(p), work / ("in-" + k)) for k, p in srcs.items()}
    # ------------------------------------------------------------------ A: determinism
    jobs = []
    combos = [("recon-x", "extended", "arduino", "zonedb"), ("recon-x", "extended", "python", "zonedb"),
              ("recon-b", "basic", "arduino", "zonedb"), ("tz2025b", "extended", "python", "zonedb"),
              ("tz2025b", "basic", "arduino", "zonedb"), ("tz2025b", "extended", None, "zonelist"), ("tz2025b", "basic", None, "tzdb"),
              ("features", "extended", "python", "zonedb"), ("features", "basic", "python", "zonedb"), ("features", "extended", "arduino", "zonedb"),
              ("tz2025b", "basic", "python", "zonedb")]        # basic scope with the script's own default granularities (America/Moncton: AT 0:01)
    if not q:
        combos += [("tz2025b", "extended", "arduino", "zonedb"), ("recon-b", "basic", "python", "zonedb"),
                   ("recon-x", "basic", "arduino", "zonedb"), ("recon-x", "extended", None, "tzdb")]
        combos += [("mutant%d" % i, sc, lang, "zonedb") for i in range(6) for sc in ("basic", "extended") for lang in ("arduino", "python")]
    for name, scope, lang, action in combos:
        jobs.append((indirs[name], scope, lang, action, work, "%s-%s-%s-%s" % (name, scope, lang, action), 2000, 2050))
    # several actions in one invocation: the two runs use hash seeds that walk the action set in different orders, and each
    # file must also equal the one a single-action invocation writes (one generator must not alter what the next one reads)
    multi = [("features", "extended", "arduino", "zonedb,tzdb"), ("features", "basic", "arduino", "zonedb,zonelist,tzdb")]
    singles = [("features", "extended", None, "tzdb"), ("features", "basic", None, "tzdb"), ("features", "basic", "arduino", "zonedb"),
               ("features", "basic", None, "zonelist"), ("features", "extended", None, "zonelist")]     # extended: emitted zones with truncation notes
    for name, scope, lang, action in multi:
        jobs.append((indirs[name], scope, lang, action, work, "%s-%s-%s-%s" % (name, scope, lang, action), 2000, 2050,
                     seeds_ordering_a_set_differently(action.split(","))))
    for name, scope, lang, action in singles:
        jobs.append((indirs[name], scope, lang, action, work, "%s-%s-%s-%s" % (name, scope, lang, action), 2000, 2050))
    outputs = {}
    with cf.ThreadPoolExecutor(max_workers=N // 2) as ex:
        for job, outs in ex.map(run_twice, jobs):
            tag = job[5]
            (o1, p1), (o2, p2) = outs
            if p1.returncode != 0 or p2.returncode != 0:
                v.violation("c20:tzcompiler-failed", "tzcompiler.py exited non-zero", {"job": tag, "stderr": (p1.stderr + p2.stderr)[-600:]})
                continue
            outputs[tag] = o1
            files = sorted(f.name for f in o1.iterdir())
            if files != sorted(f.name for f in o2.iterdir()):
                v.violation("c20:different-file-set", "two runs produced different sets of files", {"job": tag})
                continue
            counters["determinism_programs"] = counters.get("determinism_programs", 0) + 1
            for f in files:
                a, b = (o1 / f).read_text(), (o2 / f).read_text()
                counters["determinism_files"] = counters.get("determinism_files", 0) + 1
                if f.endswith(".json"):
                    same = canon_json(a) == canon_json(b)
                else:
                    same = canon_text(a) == canon_text(b)
                if not same:
                    ca, cb = (canon_text(a), canon_text(b)) if not f.endswith(".json") else (a.splitlines(), b.splitlines())
                    diff = [(i, x, y) for i, (x, y) in enumerate(zip(ca, cb)) if x != y][:3]
                    v.violation("c20:nondeterministic-output:%s" % f, "the same source compiled twice gives different files",
                                {"job": tag, "file": f, "first_diffs": diff})
    for name, scope, lang, action in multi:
        mt = "%s-%s-%s-%s" % (name, scope, lang, action)
        if mt not in outputs:
            continue
        for act in action.split(","):
            st = "%s-%s-%s-%s" % (name, scope, (lang if act == "zonedb" else None), act)
            if st not in outputs:
                continue
            for f in sorted(x.name for x in outputs[st].iterdir()):
                counters["multi_action_files_compared"] = counters.get("multi_action_files_compared", 0) + 1
                fm = outputs[mt] / f
                a, b = (outputs[st] / f).read_text(), (fm.read_text() if fm.exists() else "")
                same = (canon_json(a) == canon_json(b)) if f.endswith(".json") else (canon_text(a) == canon_text(b))
                if not same:
                    v.violation("c20:multi-action-output-differs:%s" % f, "a file written by an invocation with several --action values differs from the one a single-action invocation writes",
                                {"multi": mt, "single": st, "file": f})
    # ------------------------------------------------------------------ B/C/D: python tables, zone list, counters
    for name, scope in (("recon-x", "extended"), ("tz2025b", "extended"), ("tz2025b", "basic"), ("features", "extended"), ("features", "basic")) + ((("recon-b", "basic"),) if not q else ()):
        tag = "%s-%s-python-zonedb" % (name, scope)
        out = outputs.get(tag)
        if out is None:
            continue
        c = tzpipe.compile_source(indirs[name], scope, 2000, 2050)
        pkg = work / ("pkg_%s_%s" % (name.replace("-", "_"), scope))
        pkg.mkdir()
        for f in ("zone_infos.py", "zone_policies.py"):
            (pkg / f).write_text((out / f).read_text())
        (pkg / "__init__.py").write_text("")
        sys.path.insert(0, str(work))
        try:
            zi = importlib.import_module(pkg.name + ".zone_infos")
            zp = importlib.import_module(pkg.name + ".zone_policies")
        except BaseException as e:  # noqa
            v.violation("c20:generated-python-does-not-import", "generated Python tables do not import", {"job": tag, "error": repr(e)[:300]})
            continue
        if set(zi.ZONE_INFO_MAP) != set(c.zone_infos):
            v.violation("c20:python-table-zone-set", "imported ZONE_INFO_MAP has different zones than the in-memory tables", {"job": tag})
        if set(zp.ZONE_POLICY_MAP) != set(c.zone_policies):
            v.violation("c20:python-table-policy-set", "imported ZONE_POLICY_MAP has different policies than the in-memory tables",
                        {"job": tag, "only_file": sorted(set(zp.ZONE_POLICY_MAP) - set(c.zone_policies))[:4],
                         "only_memory": sorted(set(c.zone_policies) - set(zp.ZONE_POLICY_MAP))[:4]})
        spelling_only = 0
        for zn, info in c.zone_infos.items():
            f = zi.ZONE_INFO_MAP.get(zn)
            if f is None:
                continue
            counters["python_zones_compared"] = counters.get("python_zones_compared", 0) + 1
            if f["name"] != info["name"] or len(f["eras"]) != len(info["eras"]):
                v.violation("c20:python-table-differs", "imported zone differs from in-memory zone", {"job": tag, "zone": zn})
                continue
            for i, (ef, em) in enumerate(zip(f["eras"], info["eras"])):
                for k in em:
                    a, b = ef.get(k), em[k]
                    if k == "zonePolicy" and isinstance(b, dict):
                        if not isinstance(a, dict) or a["rules"] != b["rules"]:
                            v.violation("c20:python-table-differs", "imported era policy differs from in-memory", {"job": tag, "zone": zn, "era": i})
                        elif a.get("name") != b.get("name"):
                            spelling_only += 1
                        continue
                    if a != b:
                        v.violation("c20:python-table-differs:%s" % k, "imported era field differs from in-memory", {"job": tag, "zone": zn, "era": i, "field": k, "file": a, "memory": b})
        counters["info_policy_name_spelling_differs"] = counters.get("info_policy_name_spelling_differs", 0) + spelling_only
        # header counters of the python files
        txt_i, txt_p = (out / "zone_infos.py").read_text(), (out / "zone_policies.py").read_text()
        def stated_count(pattern, text):
            m = re.search(pattern, text, re.M)
            return int(m.group(1)) if m else None
        ni, ne = stated_count(r"^# numInfos: (\d+)", txt_i), stated_count(r"^# numEras: (\d+)", txt_i)
        npol, nr = stated_count(r"^# numPolicies: (\d+)", txt_p), stated_count(r"^# numRules: (\d+)", txt_p)
        real = (len(zi.ZONE_INFO_MAP), sum(len(z["eras"]) for z in zi.ZONE_INFO_MAP.values()), len(zp.ZONE_POLICY_MAP),
                sum(len(p["rules"]) for p in zp.ZONE_POLICY_MAP.values()))
        for st_v, re_v, what in zip((ni, ne, npol, nr), real, ("numInfos", "numEras", "numPolicies", "numRules")):
            if st_v is None:
                counters["info_header_counter_not_stated"] = counters.get("info_header_counter_not_stated", 0) + 1
                continue     # a header that no longer states the count cannot state it wrongly
            counters["header_counters_checked"] = counters.get("header_counters_checked", 0) + 1
            if st_v != re_v:
                v.violation("c20:python-header-counters", "a count stated in the generated Python headers differs from the entries present",
                            {"job": tag, "counter": what, "stated": st_v, "present": re_v})
        samples.append({"job": tag, "numInfos": ni, "numEras": ne, "numPolicies": npol, "numRules": nr})
    # zones.txt: every invocation that wrote one (2025b extended; the hand-written source in basic scope, where emitted zones
    # carry truncation notes; the multi-action run), against the zones emitted by the same source and scope, and its own
    # "numZones" line against the names it lists
    for tag, out in sorted(outputs.items()):
        if out is None or not (out / "zones.txt").exists():
            continue
        pname, pscope = tag.split("-")[0], tag.split("-")[1]
        if tag.startswith("recon-"):
            pname, pscope = "-".join(tag.split("-")[:2]), tag.split("-")[2]
        c = tzpipe.compile_source(indirs[pname], pscope, 2000, 2050)
        ztxt = (out / "zones.txt").read_text()
        listed = [l.strip() for l in ztxt.splitlines() if l.strip() and not l.startswith("#")]
        counters["zonelist_names"] = counters.get("zonelist_names", 0) + len(listed)
        counters["zonelist_files"] = counters.get("zonelist_files", 0) + 1
        counters["zonelist_noted_zones_emitted"] = counters.get("zonelist_noted_zones_emitted", 0) + len(set(c.tzdb["zones_map"]) & set(c.tzdb["notable_zones"]))
        if sorted(listed) != sorted(c.tzdb["zones_map"]):
            v.violation("c20:zonelist-differs", "zones.txt is not the set of emitted zones",
                        {"job": tag, "only_list": sorted(set(listed) - set(c.tzdb["zones_map"]))[:5], "only_emitted": sorted(set(c.tzdb["zones_map"]) - set(listed))[:5]})
        mz = re.search(r"^# numZones: (\d+)", ztxt, re.M)
        if not mz or int(mz.group(1)) != len(listed):
            v.violation("c20:zonelist-count", "zones.txt states a number of zones different from the names it lists", {"job": tag, "stated": mz.group(1) if mz else None, "listed": len(listed)})
    if counters.get("zonelist_files", 0) < 3 or counters.get("zonelist_noted_zones_emitted", 0) < 3:
        v.inconclusive_because("zones.txt was not examined on a source with noted zones: %r" % {k: n for k, n in counters.items() if k.startswith("zonelist")})
    # arduino header counters vs compiled content, basic subset of extended with identical behaviour
    name = "tz2025b"
    p = srcs[name]
    gens, comps = {}, {}
    for scope, ns in (("extended", "gendbx"), ("basic", "gendb")):
        c = tzpipe.compile_source(indirs[name], scope, 2000, 2050)
        comps[scope] = c
        gen = work / ("gen20-" + scope)
        tzpipe.generate_arduino(c, gen, ns)
        gens[scope] = gen
    try:
        objs = []
        for s in gens:
            objs += vlib.build_gen_objects([gens[s] / f for f in ("zone_infos.cpp", "zone_policies.cpp", "zone_registry.cpp")], "fast",
                                           includes=[gens[s]], outdir=work / ("obj20-" + s))
        defs = ["VERIF_GEN_REGISTRY_H=\"%s\"" % (gens["extended"] / "zone_registry.h"), "VERIF_GEN_REGISTRY_H2=\"%s\"" % (gens["basic"] / "zone_registry.h"),
                "VERIF_EXT_NS=gendbx", "VERIF_BASIC_NS=gendb", "VERIF_SKIP_MISSING=1"]
        codec = vlib.build(VERIF / "native" / "codec.cpp", "fast", defines=defs, extra_objects=objs, name="codec20")
        sweep = vlib.build(VERIF / "native" / "tzsweep.cpp", "fast", defines=defs, extra_objects=objs, name="tzsweep20")
    except vlib.BuildError as e:
        v.violation("c20:generated-code-does-not-compile", "freshly generated C++ tables do not compile (inconsistent declarations?)",
                    {"error": str(e)[-1500:]})
        v.coverage.update({"programs": max(1, counters.get("determinism_programs", 0)), "disagreements_checked": len(v.violations),
                           "evaluations": max(1, counters.get("determinism_files", 0)), "distinct_nontrivial": max(2, counters.get("determinism_files", 0)),
                           "rule": "aborted: generated tables did not compile", "samples": samples[:3] or ["none"], "counters": counters})
        return v.finish()
    r = vlib.run_shards(codec, [["--db", "both"]], timeout=900)
    v.absorb(r, "codec")
    for d in r.infos:
        scope = d["kind"]
        gen = gens[scope]
        ti, tp, tr_h = (gen / "zone_infos.cpp").read_text(), (gen / "zone_policies.cpp").read_text(), (gen / "zone_registry.h").read_text()
        th = (gen / "zone_infos.h").read_text()
        def stated_c(pattern, text):
            m = re.search(pattern, text, re.M)
            return int(m.group(1)) if m else None
        stated = {
            "zones(cpp)": stated_c(r"^// Zones: (\d+)", ti),
            "links(cpp)": stated_c(r"^// Links: (\d+)", ti),
            "policies": stated_c(r"^// Policies: (\d+)", tp),
            "rules": stated_c(r"^// Rules: (\d+)", tp),
            "registry": stated_c(r"kZoneRegistrySize = (\d+);", tr_h),
            "supported zones(h)": stated_c(r"^// Supported zones: (\d+)", th),
            "supported links(h)": stated_c(r"^// Supported links: (\d+)", th),
        }
        stated = {k: n for k, n in stated.items() if n is not None}    # a count that is not stated cannot be stated wrongly
        nlinks = len(re.findall(r"^const \w+::ZoneInfo& kZone\w+ = kZone\w+;", ti, re.M))
        present = {
            "zones(cpp)": len(d["zones"]), "links(cpp)": nlinks, "policies": len(d["policies"]),
            "rules": sum(len(pp["rules"]) for pp in d["policies"]), "registry": d["registrySize"],
            "supported zones(h)": len(d["zones"]), "supported links(h)": nlinks,
        }
        # policies referenced by no era are emitted too: count from the generator's own rules_map
        present["policies"] = len(comps[scope].tzdb["rules_map"])
        present["rules"] = sum(len(x) for x in comps[scope].tzdb["rules_map"].values())
        present = {k: present[k] for k in stated}
        counters["header_counters_checked"] = counters.get("header_counters_checked", 0) + len(stated)
        if stated != present:
            v.violation("c20:arduino-header-counters", "counts stated in the generated C++ headers differ from the entries present",
                        {"scope": scope, "stated": stated, "present": present})
        if len(d["zones"]) != len(comps[scope].tzdb["zones_map"]) or len(comps[scope].tzdb["links_map"]) != nlinks:
            v.violation("c20:arduino-content-vs-tzdb", "compiled registry / link references do not match the emitted maps",
                        {"scope": scope, "registry": len(d["zones"]), "zones_map": len(comps[scope].tzdb["zones_map"]), "links": nlinks})
        samples.append({"scope": scope, "stated": stated})
    bz, xz = set(comps["basic"].tzdb["zones_map"]), set(comps["extended"].tzdb["zones_map"])
    if not bz <= xz:
        v.violation("c20:basic-zone-not-in-extended", "a zone emitted in basic scope is not emitted in extended scope", {"zones": sorted(bz - xz)[:6]})
    counters["basic_zones"], counters["extended_zones"] = len(bz), len(xz)
    # every "<Supported|Unsupported|Notable> <zones|links|zone policies>: N" line of the generated headers against the
    # entries listed under it, for the hand-written sources as well (they have zones that are noted AND removed)
    def section_counts(text):
        res = []
        lines = text.splitlines()
        heads = [(i, m) for i, ln in enumerate(lines) for m in [re.match(r"^// (Supported|Unsupported|Notable) (zones|links|zone policies): (\d+)\s*$", ln)] if m]
        for hi, (i, m) in enumerate(heads):
            end = heads[hi + 1][0] if hi + 1 < len(heads) else len(lines)
            body = lines[i + 1:end]
            if m.group(1) == "Supported":
                n = sum(1 for b in body if b.startswith("extern "))
            else:
                n = sum(1 for b in body if re.match(r"^// \S+ [({]", b))
            res.append(("%s %s" % (m.group(1), m.group(2)), int(m.group(3)), n))
        return res
    for other in ("tz2025b", "features", "unsupported"):
        for scope, ns in (("extended", "gendbx"), ("basic", "gendb")):
            try:
                oc = comps[scope] if other == "tz2025b" else tzpipe.compile_source(indirs[other], scope, 2000, 2050)
                og = gens[scope] if other == "tz2025b" else work / ("genhdr-%s-%s" % (other, scope))
                if other != "tz2025b":
                    tzpipe.generate_arduino(oc, og, ns)
            except tzpipe.CompilerDied as e:
                v.inconclusive_because("source %s/%s could not be generated (C03 judges that): %s" % (other, scope, repr(e.exc)[:200]))
                continue
            for fn in ("zone_infos.h", "zone_policies.h"):
                for label, stated_n, listed_n in section_counts((og / fn).read_text()):
                    counters["header_sections_checked"] = counters.get("header_sections_checked", 0) + 1
                    if stated_n != listed_n:
                        v.violation("c20:arduino-header-section-count", "a generated header states a number of entries different from the entries it lists",
                                    {"program": other, "scope": scope, "file": fn, "section": label, "stated": stated_n, "listed": listed_n})
    # the optional zone_strings.{h,cpp} pair (--generate_zone_strings): the zone-name array is a second "emitted zone list"
    # and must equal the set of emitted zones; the format array holds exactly the FORMAT and LETTER strings of the emitted
    # tables; "numStrings" and "memory" stated beside each array equal its entries; indices run 0..n-1
    for other in ("tz2025b", "features"):
        for scope, ns in (("extended", "gendbx"), ("basic", "gendb")):
            try:
                oc = comps[scope] if other == "tz2025b" else tzpipe.compile_source(indirs[other], scope, 2000, 2050)
                og = work / ("genstr-%s-%s" % (other, scope))
                tzpipe.generate_arduino(oc, og, ns, generate_zone_strings=True)
            except tzpipe.CompilerDied as e:
                v.violation("c20:zone-strings-generator-raises", "generation with --generate_zone_strings failed", {"program": other, "scope": scope, "error": repr(e.exc)[:300]})
                continue
            zs_path = og / "zone_strings.cpp"
            if not zs_path.exists() or not (og / "zone_strings.h").exists():
                v.violation("c20:zone-strings-missing", "--generate_zone_strings produced no zone_strings files", {"program": other, "scope": scope})
                continue
            txt = zs_path.read_text()
            want_sets = {"kZoneStrings": set(oc.tzdb["zones_map"]),
                         "kFormats": {e["format"].replace("%s", "%") for eras in oc.tzdb["zones_map"].values() for e in eras}
                                     | {r["letter"] for rules in oc.tzdb["rules_map"].values() for r in rules}}
            for arr, want_set in want_sets.items():
                m = re.search(r"// numStrings: (\d+)\n// memory: (\d+)\n// memory original: \d+\nconst char\* const %s\[\] = \{\n(.*?)\n\};" % arr, txt, re.S)
                counters["zone_string_arrays_checked"] = counters.get("zone_string_arrays_checked", 0) + 1
                if not m:
                    v.violation("c20:zone-strings-layout", "zone_strings.cpp does not hold the expected array", {"program": other, "scope": scope, "array": arr})
                    continue
                entries = re.findall(r'^\s*/\*\s*(\d+)\*/ "([^"]*)",\s*$', m.group(3), re.M)
                idx_ok = [int(i) for i, _ in entries] == list(range(len(entries)))
                names_ = [n for _, n in entries]
                if int(m.group(1)) != len(entries) or not idx_ok or int(m.group(2)) != sum(len(n) + 1 for n in names_) or len(set(names_)) != len(names_):
                    v.violation("c20:zone-strings-count", "zone_strings.cpp states a number of strings / bytes (or indices) different from the entries listed",
                                {"program": other, "scope": scope, "array": arr, "stated": int(m.group(1)), "listed": len(entries), "indices_consecutive": idx_ok,
                                 "stated_memory": int(m.group(2)), "listed_memory": sum(len(n) + 1 for n in names_)})
                if set(names_) != want_set:
                    v.violation("c20:zone-strings-differ-from-emitted", "the strings listed in zone_strings.cpp are not exactly those of the emitted zones / tables",
                                {"program": other, "scope": scope, "array": arr, "missing": sorted(want_set - set(names_))[:6], "extra": sorted(set(names_) - want_set)[:6]})
            # the pair is an addition: the other files must be what they are without the flag
            base_dir = gens[scope] if other == "tz2025b" else work / ("genhdr-%s-%s" % (other, scope))
            for fn in ("zone_infos.cpp", "zone_policies.cpp", "zone_registry.cpp", "zone_infos.h"):
                if (base_dir / fn).exists() and (og / fn).read_text() != (base_dir / fn).read_text():
                    v.violation("c20:zone-strings-flag-changes-tables", "--generate_zone_strings changes a file other than the zone_strings pair", {"program": other, "scope": scope, "file": fn})
    if counters.get("zone_string_arrays_checked", 0) < 8:
        v.inconclusive_because("the zone_strings artifacts were not examined")
    # the validation_* artifact family (ArduinoValidationGenerator): numItems stated per zone == entries of its item array,
    # "numZones" == declarations == definitions == test cases. The item lists are shaped like the three producers' output:
    # unique epochs (pytz / java), coinciding epochs ('B' and 'S' samples of compare_cpp at the same instant), an empty list.
    arval = importlib.import_module("validation.arvalgenerator")
    transformer = importlib.import_module("tzdb.transformer")

    def item(e, typ, k=0):
        d_ = dt.datetime(2000, 1, 1) + dt.timedelta(seconds=e)
        return {"epoch": e, "total_offset": -28800 + k, "dst_offset": 0, "y": d_.year, "M": d_.month, "d": d_.day, "h": d_.hour, "m": d_.minute,
                "s": d_.second, "abbrev": "PST", "type": typ}
    vdata = {
        "America/Unique": [item(86400 * i * 31, "S") for i in range(12)],
        "Etc/Coinciding": [item(0, "B"), item(0, "S")] + [item(86400 * i * 31, "S") for i in range(1, 12)] + [item(86400 * 334, "S"), item(86400 * 334, "Y")],
        "Etc/Triple": [item(1000, "A"), item(1000, "B"), item(1000, "S"), item(2000, "S")],
        "Etc/Empty": [],
        "Etc/One": [item(5, "S")],
    }
    for vscope in ("extended", "basic"):
        vd = {"start_year": 2000, "until_year": 2050, "source": "synthetic", "version": "x", "has_valid_abbrev": True, "has_valid_dst": True,
              "test_data": vdata}
        vout = work / ("valgen-" + vscope)
        vout.mkdir()
        try:
            arval.ArduinoValidationGenerator("verif", "x", vscope, "valdb", vd, {}).generate_files(str(vout))
        except BaseException as e:  # noqa
            v.violation("c20:validation-generator-raises:%s" % type(e).__name__, "ArduinoValidationGenerator raised on well-formed validation data", {"error": repr(e)[:300]})
            continue
        files = {f.name: f.read_text() for f in vout.iterdir()}
        cpp = next((t for n_, t in files.items() if n_.endswith("_data.cpp")), "")
        hdr = next((t for n_, t in files.items() if n_.endswith("_data.h")), "")
        tests = next((t for n_, t in files.items() if n_.endswith("_tests.cpp")), "")
        arrays = {m.group(1): len(re.findall(r"^\s*\{[^{}]*\},\s*$", m.group(2), re.M))
                  for m in re.finditer(r"kValidationItems(\w+)\[\] = \{(.*?)^\};", cpp, re.S | re.M)}
        stated = {m.group(1): int(m.group(2)) for m in re.finditer(r"kValidationData(\w+) = \{\s*(\d+) /\*numItems\*/", cpp)}
        for zname, items_ in vdata.items():
            sym = transformer.normalize_name(zname)
            counters["validation_tables_checked"] = counters.get("validation_tables_checked", 0) + 1
            if stated.get(sym) != arrays.get(sym) or arrays.get(sym) != len(items_):
                v.violation("c20:validation-table-count", "a generated validation table states a number of items different from the entries it holds (or from the items given)",
                            {"scope": vscope, "zone": zname, "stated_numItems": stated.get(sym), "entries_in_array": arrays.get(sym), "items_given": len(items_)})
        for label, text_ in (("validation_data.h", hdr), ("validation_tests.cpp", tests)):
            m = re.search(r"^// numZones: (\d+)", text_, re.M)
            listed = len(re.findall(r"^extern const testing::ValidationData ", text_, re.M)) if label.endswith(".h") else len(re.findall(r"^testF\(", text_, re.M))
            counters["validation_counts_checked"] = counters.get("validation_counts_checked", 0) + 1
            if not m or int(m.group(1)) != listed or listed != len(vdata):
                v.violation("c20:validation-zone-count", "a generated validation file states a number of zones different from the entries it lists",
                            {"scope": vscope, "file": label, "stated": m.group(1) if m else None, "listed": listed, "zones_given": len(vdata)})
    if counters.get("validation_tables_checked", 0) < 10:
        v.inconclusive_because("the validation artifacts were not examined")
    # the same inclusion on the hand-written sources (constructs one scope supports and the other does not) and on the shipped lines
    for other in ("features", "unsupported", "recon-x"):
        try:
            ob = set(tzpipe.compile_source(indirs[other], "basic", 2000, 2050).tzdb["zones_map"])
            ox = set(tzpipe.compile_source(indirs[other], "extended", 2000, 2050).tzdb["zones_map"])
        except tzpipe.CompilerDied as e:
            v.inconclusive_because("source %s could not be compiled in both scopes (C03 judges that): %s" % (other, repr(e.exc)[:200]))
            continue
        counters["basic_subset_programs"] = counters.get("basic_subset_programs", 0) + 1
        counters["basic_subset_zones_checked"] = counters.get("basic_subset_zones_checked", 0) + len(ob)
        if not ob <= ox:
            v.violation("c20:basic-zone-not-in-extended", "a zone emitted in basic scope is not emitted in extended scope",
                        {"program": other, "zones": sorted(ob - ox)[:6]})
    # identical behaviour: sweep basic zones with the extended processor alongside (zones with a truncation note excepted)
    segs = c03lib.zic_segments(p, work / "zic20", selfcheck_zones=None)
    judged = [z for z in sorted(bz) if not c03lib.truncation_noted(comps["basic"].tzdb, z) and not c03lib.truncation_noted(comps["extended"].tzdb, z)]
    ofile = work / "oracle20.bin"
    zicoracle.write_oracle_file(ofile, {z: segs[z] for z in judged}, judged)
    S = N
    rr = vlib.run_shards(sweep, [["--oracle", ofile, "--db", "basic", "--prop", "c20", "--cross", "--grid", 60 if q else 5, "--nbhd", 60,
                                  "--shard", "%d/%d" % (i, S)] for i in range(S)], timeout=3000)
    for w in rr.witnesses:
        v.violation(w.get("key", "c20:?"), w.get("what", ""), w)
    v.absorb(vlib.ShardResult(), "")
    for cr in rr.crashes:
        v.violation("c20:cross-sweep-crash", "basic/extended cross sweep died", cr)
    for k, n in rr.counters.items():
        counters["cross." + k] = counters.get("cross." + k, 0) + n
    # the same clause on the hand-written sources, whose zones carry notes from several passes: zones emitted in both scopes
    # and truncation-noted in neither are asked through the Python ZoneSpecifier on both scopes' tables, every 3 d 5 h
    from zonedb.zone_specifier import ZoneSpecifier
    for other in ("features", "unsupported"):
        try:
            cb = tzpipe.compile_source(indirs[other], "basic", 2000, 2050)
            cx = tzpipe.compile_source(indirs[other], "extended", 2000, 2050)
        except tzpipe.CompilerDied:
            continue        # reported above
        both = [z for z in sorted(set(cb.zone_infos) & set(cx.zone_infos))
                if not c03lib.truncation_noted(cb.tzdb, z) and not c03lib.truncation_noted(cx.tzdb, z)]
        counters["py_cross_zones"] = counters.get("py_cross_zones", 0) + len(both)
        counters["py_cross_zones_excepted_for_a_truncation_note"] = counters.get("py_cross_zones_excepted_for_a_truncation_note", 0) + \
            len(set(cb.zone_infos) & set(cx.zone_infos)) - len(both)
        for z in both:
            zb, zx = ZoneSpecifier(cb.zone_infos[z]), ZoneSpecifier(cx.zone_infos[z])
            for t in range(86400 * 3, 1577923200 - 86400 * 3, 86400 * 3 + 3600 * 5):
                counters["py_cross_probes"] = counters.get("py_cross_probes", 0) + 1
                try:
                    a_, b_ = tuple(zb.get_timezone_info_for_seconds(t)), tuple(zx.get_timezone_info_for_seconds(t))
                except Exception as e:  # noqa
                    v.violation("c20:basic-extended-disagree", "a zone emitted in both scopes cannot be asked in one of them", {"program": other, "zone": z, "epochSeconds": t, "error": repr(e)[:200]})
                    break
                if a_ != b_:
                    v.violation("c20:basic-extended-disagree", "a zone emitted in both scopes without a truncation note answers differently in the two scopes",
                                {"program": other, "zone": z, "epochSeconds": t, "basic": list(a_), "extended": list(b_),
                                 "notes_basic": sorted(cb.tzdb["notable_zones"].get(z, [])), "notes_extended": sorted(cx.tzdb["notable_zones"].get(z, []))})
                    break
    if counters.get("py_cross_zones", 0) < 6 or counters.get("py_cross_zones_excepted_for_a_truncation_note", 0) < 1:
        v.inconclusive_because("the scope comparison on the hand-written sources did not run: %r" % {k: n for k, n in counters.items() if k.startswith("py_cross")})
    # ------------------------------------------------------------------ F: the checked-in python database
    zones, rules = reconstruct_py(REPO / "tools" / "zonedbpy")
    names = sorted(zones)
    try:
        text = zicoracle.source_text(zones, rules, None, split=True)
        psegs, _ = zicoracle.compile_segments(text, work / "zicpy", names)
    except zicoracle.OracleError as e:
        v.inconclusive_because("zonedbpy oracle: %s" % e)
        psegs = None
    if psegs:
        zmod = importlib.import_module("zonedbpy.zone_infos")
        if set(zmod.ZONE_INFO_MAP) != set(names):
            v.violation("c20:zonedbpy-zone-set", "checked-in python database map differs from its own recorded zones", {})
        # every zone in both tiers (a hand edit may concern one rule of one zone for one hour: seeded change C20q); quick uses a coarser grid,
        # the probes at every zic breakpoint (-60, -1, 0, +59 s) are the same
        infos = {z: zmod.ZONE_INFO_MAP[z] for z in names if z in zmod.ZONE_INFO_MAP}
        items = [{"mode": "zic", "prop": "c20", "zone_infos": sh, "segments": {z: psegs[z] for z in sh}, "start_year": 2000, "until_year": 2038,
                  "grid_s": (86400 * 11 + 3600 * 5) if q else (86400 * 2 + 3600 * 5)} for sh in c03lib.shard_dict(infos, N)]
        # "answers every year of its range": with the interpreter's default window, and with its other documented window
        # (13 months: the year itself plus the following January), whose edge falls on Jan 1 instead of Dec 1
        items13 = [dict(it, zs_kwargs={"viewing_months": 13}) for it in items]
        # ... and with the basic (not in-place) selector and basic candidate finder, which tools/zinfo.py and tools/validate.py
        # use when run without flags
        items_basic = [dict(it, zs_kwargs={"in_place_transitions": False, "optimize_candidates": False}) for it in items]
        for tagw, its in (("", items), ("window13.", items13), ("basicselector.", items_basic)):
            m = c03lib.run_py_workers(its, work / ("pydb" + tagw.strip(".")))
            for f in m["failed"]:
                v.inconclusive_because("zonedbpy worker failed: " + f["stderr"][-300:])
            for w in m["witnesses"]:
                w["key"] = w["key"].replace("c20:", "c20:zonedbpy-")
                if tagw:
                    w["zone_specifier_options"] = its[0]["zs_kwargs"]
                v.violation(w["key"], "checked-in python database: " + w["what"], w)
            for k, n in m["counters"].items():
                counters["zonedbpy." + tagw + k] = n
        # zinfo.py code path on a sample of dates
        for z in rng.sample(sorted(infos), 6 if q else 40):
            seg = [s for s in psegs[z][1:] if 946684800 + 86400 * 400 < s[0] < 2114380800]
            t_unix = (seg[len(seg) // 2][0] + 86400 * 20) if seg else 1500000000
            want = zicoracle.lookup(psegs[z], t_unix)
            local = dt.datetime.fromtimestamp(t_unix, dt.timezone.utc).replace(tzinfo=None) + dt.timedelta(seconds=want[1])
            pr = subprocess.run([sys.executable, str(REPO / "tools" / "zinfo.py"), "--zone", z, "--date", local.strftime("%Y-%m-%dT%H:%M")],
                                capture_output=True, text=True, cwd=str(REPO / "tools"), timeout=120)
            counters["zinfo_runs"] = counters.get("zinfo_runs", 0) + 1
            mm = re.search(r"UTC([+-]\d\d:\d\d)([+-]\d\d:\d\d) \((\S*)\)", pr.stdout + pr.stderr)
            if not mm:
                v.violation("c20:zinfo-no-answer", "zinfo.py printed no offset line", {"zone": z, "date": local.isoformat(), "out": (pr.stdout + pr.stderr)[-300:]})
                continue

            def hm(s):
                sign = -1 if s[0] == '-' else 1
                return sign * (int(s[1:3]) * 3600 + int(s[4:6]) * 60)
            total = hm(mm.group(1)) + hm(mm.group(2))
            if total != want[1] or mm.group(3) != want[3]:
                v.violation("c20:zinfo-differs-from-zic", "zinfo.py answer differs from zic on the database's own recorded lines",
                            {"zone": z, "date": local.isoformat(), "zinfo": mm.group(0), "zic": list(want[1:])})
    need = {"determinism_files": 10, "python_zones_compared": 300, "cross.sweep.cross_probes": 100000, "zonedbpy.probes": 100000, "zonedbpy.window13.probes": 100000, "zonedbpy.basicselector.probes": 100000}
    for k, n in need.items():
        if counters.get(k, 0) < n:
            v.inconclusive_because("counter %s=%s below %s" % (k, counters.get(k, 0), n))
    v.coverage.update({
        "programs": counters.get("determinism_programs", 0),
        "disagreements_checked": len(v.violations),
        "evaluations": counters.get("determinism_files", 0) + counters.get("python_zones_compared", 0) + counters.get("cross.sweep.cross_probes", 0)
        + counters.get("zonedbpy.probes", 0),
        "distinct_nontrivial": counters.get("determinism_files", 0) + counters.get("python_zones_compared", 0) + counters.get("cross.sweep.cross_zones", 0),
        "rule": "(A) tzcompiler.py run twice per (source, scope, language/action) in separate processes with different PYTHONHASHSEED, working "
                "directory and output directory; files compared byte for byte after dropping the invocation line and sorting the reasons "
                "inside one (...) comment (JSON: reason lists sorted); (B) generated Python tables imported from a scratch package and "
                "compared field by field with InlineGenerator's maps; (C) zones.txt vs emitted zones; (D) every count stated in generated "
                "headers vs entries counted by importing / compiling and reading through the brokers; (E) basic subset of extended and "
                "probe-by-probe identical behaviour of freshly generated basic vs extended tables (truncation-noted zones excepted); "
                "(F) tools/zonedbpy imported and compared with zic on its own recorded lines for 2000..2037, zinfo.py run on sampled "
                "dates. distinct = distinct files + zones + cross-swept zones.",
        "samples": samples[:6],
        "counters": counters,
    })
    return v.finish()
