"""C03 - the TZ compiler preserves semantics end to end; unsupported zones are reported."""
import concurrent.futures as cf
import json
import os
import subprocess
import sys

import vlib
from vlib import VERIF, Verdict


def run_workers(jobs, parallel, jobs_each):
    """jobs: list of argv lists for c03worker.py.  Runs `parallel` at a time."""
    work = vlib.scratch()
    results = []

    def one(ij):
        i, argv = ij
        out = work / ("res%03d.json" % i)
        env = dict(os.environ)
        env["VERIF_JOBS"] = str(jobs_each)
        env["PYTHONFAULTHANDLER"] = "1"
        for attempt in (1, 2):     # a worker that dies without a result is run once more; twice in a row is reported with its arguments
            p = subprocess.run([sys.executable, str(VERIF / "py" / "c03worker.py"), argv[0], str(out)] + [str(a) for a in argv[1:]],
                               capture_output=True, text=True, env=env, timeout=7000)
            if out.exists():
                break
        if not out.exists():
            return argv, {"violations": [], "inconclusive": ["worker %r produced no result twice, rc=%s: %s" % (argv, p.returncode, p.stderr[-1500:])],
                          "stats": {}, "info": {"kind": argv[0]}}
        return argv, json.loads(out.read_text())
    with cf.ThreadPoolExecutor(max_workers=parallel) as ex:
        for argv, res in ex.map(one, list(enumerate(jobs))):
            results.append((argv, res))
    return results


def run(tier):
    v = Verdict("C03", tier, "translation_validation")
    seed = vlib.seed()
    q = tier == "quick"
    pyg = 86400 * 3 + 3600 * 5 if q else 6 * 3600 + 1800
    big = [["recon-x", "--grid", 120 if q else 1, "--nbhd", 120 if q else 3600, "--pygrid", pyg],
           ["recon-b", "--grid", 120 if q else 1, "--nbhd", 120 if q else 3600, "--pygrid", pyg],
           ["tz2025b", "--grid", 120 if q else 1, "--nbhd", 120 if q else 3600, "--pygrid", pyg],
           ["features", "--grid", 30 if q else 1, "--nbhd", 120 if q else 3600, "--pygrid", 86400 if q else 6 * 3600 + 1800],
           ["unsupported", "--grid", 30 if q else 1, "--nbhd", 120 if q else 3600, "--pygrid", 86400 if q else 6 * 3600 + 1800]]
    # the compiler's --strict option: a value that does not fit removes the zone (with a reason) instead of truncating it
    big.append(["unsupported", "--strict", "--targets", "python", "--grid", 30, "--pygrid", 86400])
    big.append(["features", "--strict", "--targets", "python", "--grid", 30, "--pygrid", 86400])
    # ... and its granularity options (--until_at_granularity / --offset_granularity 900 in both scopes): more values are cut,
    # each cut must be noted (or, with --strict, the zone / policy removed)
    big.append(["features", "--granularity", 900, "--targets", "python", "--grid", 30, "--pygrid", 86400])
    big.append(["unsupported", "--granularity", 900, "--strict", "--targets", "python", "--grid", 30, "--pygrid", 86400])
    if not q:
        big.append(["tz2025b", "--strict", "--targets", "python", "--grid", 60, "--pygrid", 86400 * 3 + 3600 * 5])
        big.append(["tz2025b-raw", "--grid", 5])
        big.append(["recon-x", "--grid", 60, "--nbhd", 30, "--san", "--targets", "arduino"])
    nmut = 8 if q else 200
    muts = [["mutant", "--seed", seed, "--index", i, "--grid", 30 if q else 5, "--pygrid", 86400 if q else 6 * 3600 + 1800] for i in range(nmut)]
    res = run_workers(big, parallel=len(big), jobs_each=max(2, vlib.NCPU // len(big)))
    res += run_workers(muts, parallel=vlib.NCPU // 2, jobs_each=2)
    stats = {}
    samples = []
    programs = 0
    rejected = 0
    unsure = 0
    contract_evals = 0
    disagreements = 0
    for argv, r in res:
        for viol in r["violations"]:
            v.violation(viol["key"], viol["what"], viol.get("witness"))
            disagreements += 1
        for inc in r["inconclusive"]:
            v.inconclusive_because("%s: %s" % (argv[0], inc))
        if r["info"].get("rejected_by_zic"):
            rejected += 1
        if r["info"].get("oracle_unsure"):
            unsure += 1
        for k, n in r["stats"].items():
            if isinstance(n, (int, float)):
                stats[k] = stats.get(k, 0) + n if not k.endswith("max_high_water") else max(stats.get(k, 0), n)
        stats["edge_year_high_water_handed_to_c09"] = stats.get("edge_year_high_water_handed_to_c09", 0) + len(r["stats"].get("edge_year_high_water", []))
        programs += r["stats"].get("programs", 0)
        contract_evals += sum(r["info"].get("contract_evals", {}).values())
        if r["info"].get("kind") == "mutant" and len(samples) < 4 and r["info"].get("edits"):
            samples.append({"program": "mutant-%d-%d" % (seed, r["info"]["index"]), "base": r["info"].get("base"),
                            "edits": r["info"]["edits"], "zones": r["info"].get("zones"), "years": r["info"].get("years"),
                            "rejected_by_zic": bool(r["info"].get("rejected_by_zic"))})
        for s in r["stats"].get("samples", [])[:1]:
            if len(samples) < 8:
                samples.append(s)
    if (rejected + unsure) * 4 > max(nmut, 1):
        v.inconclusive_because("%d of %d mutants were discarded (zic rejected %d, oracle readers disagreed on %d)" % (rejected + unsure, nmut, rejected, unsure))
    if contract_evals == 0:
        v.inconclusive_because("conservation contracts were never evaluated")
    if stats.get("py.probes", 0) < 100000 or stats.get("ar.sweep.probes", 0) < 1000000 or programs < 4:
        v.inconclusive_because("deciding counters too low: programs=%d %r" % (programs, {k: stats.get(k) for k in ("py.probes", "ar.sweep.probes")}))
    v.coverage.update({
        "programs": programs,
        "disagreements_checked": disagreements,
        "evaluations": int(stats.get("py.probes", 0) + stats.get("ar.sweep.probes", 0)),
        "distinct_nontrivial": int(stats.get("py.segments_crossed", 0) + stats.get("ar.sweep.segments_crossed", 0)),
        "rule": "programs = TZ sources: (1) the Zone/Rule/Link lines recorded beside the shipped zonedb and zonedbx tables (2020d), "
                "(1b) a hand-written source exercising features real data rarely shows after 2000 (seconds in UNTIL/AT/STDOFF, fixed SAVE, "
                "multi-character letters, 24:00/25:00, names with +/-, an era altered by two passes), (1c) a hand-written source of constructs zic accepts and the compiler "
                "documents as unsupported (negative AT/UNTIL, AT/UNTIL beyond 25:00, SAVE too large, two transitions in a month, Jan Sun<=1, name without '/', "
                "weekday UNTIL day, links to such zones): each must be emitted-and-correct or removed with a reason, never kill the compiler, (2) the real tzdata 2025b release expanded lexically from zic's compact dialect with %%z rewritten the way tzdata's "
                "rearguard does (zic output byte-identical before/after%s), (3) %d seed-driven mutants of 9..29 zones (AT/UNTIL times "
                "incl. 24:00/25:00 and s/u/g/z suffixes, ON forms, FROM/TO, SAVE -1:00..2:45, letters, STDOFF steps, era splits, "
                "added/removed rules, fixed SAVE, link retargeting; year ranges 2000..2050 / 2000..2038 / 2010..2030). Each "
                "program is compiled in-process by the real Extractor/Transformer/generators in basic and extended scope with a "
                "conservation contract on every Transformer pass, emitted zones are executed by the Python ZoneSpecifier (every zic "
                "breakpoint -60/-1/0/+59 s, year boundaries, a coarse grid) and, as generated C++ tables compiled in their own "
                "namespace, by the Basic/Extended processors (grid + second-level neighbourhoods), and compared with zic -b fat on "
                "the same text; every input zone/link must be emitted or listed as removed with a reason; every emitted UNTIL/STDOFF/AT/SAVE value that differs from "
                "its source line must carry a note naming that source value; sources zic rejects are "
                "discarded (%d here). distinct = distinct (zone, zic segment) pairs crossed." % (
                    "" if q else "; plus the raw release", nmut, rejected),
        "samples": samples,
        "counters": {k: n for k, n in stats.items()},
        "contract_evaluations": contract_evals,
        "mutants_rejected_by_zic": rejected,
        "mutants_discarded_oracle_readers_disagree": unsure,
    })
    v.assumptions += ["zones whose notable_* entry documents a truncation are excluded from the semantic comparison (counted)",
                      "mutation operators are the harness's; 'any source' is sampled, not enumerated"]
    return v.finish()
