"""C05 - instant <-> zoned date-time round trip; conversions preserve the instant."""
import vlib
from vlib import VERIF, Verdict, build, run_shards

N = vlib.NCPU


def run(tier):
    v = Verdict("C05", tier)
    drv = VERIF / "native" / "localres.cpp"
    fast = build(drv, "fast")
    san = build(drv, "sanrec")
    seed = vlib.seed()
    tot, samples = {}, []

    def go(exe, args, san_mode, what):
        r = run_shards(exe, args, san=san_mode, timeout=7000)
        v.absorb(r, what)
        for k, n in r.counters.items():
            tot[k] = tot.get(k, 0) + n
            tot[what + "." + k] = n
        samples.extend(r.samples)
        return r

    S = 4 * N
    exhaustive = False
    go(fast, [["--mode", "c05fixed", "--stride", 997, "--shard", "%d/%d" % (i, S)] for i in range(S)], None, "fixed")
    go(fast, [["--mode", "c05db", "--seed", seed, "--shard", "%d/%d" % (i, S)] for i in range(S)], None, "db")
    go(san, [["--mode", "c05fixed", "--stride", 99991, "--shard", "%d/%d" % (i, N)] for i in range(N)], "rec", "fixed(san)")
    go(san, [["--mode", "c05db", "--seed", seed + 1, "--shard", "%d/%d" % (i * 3, S)] for i in range(N)], "rec", "db(san)")
    if tier == "thorough":
        r = go(fast, [["--mode", "c05fixed", "--full", "--shard", "%d/%d" % (i, 8 * N)] for i in range(8 * N)], None, "fixedfull")
        exhaustive = not r.crashes and not r.timeouts
    if tot.get("db.conv.zones", 0) < 600 or tot.get("conv.conversions", 0) < 100000 or tot.get("conv.fixed_instants", 0) < 1000000 \
            or tot.get("conv.distant_pairs_beyond_2^31", 0) < 100000:
        v.inconclusive_because("deciding counters too low: %r" % tot)
    v.coverage.update({
        "evaluations": tot.get("conv.fixed_instants", 0) + tot.get("conv.instants", 0),
        "distinct_nontrivial": tot.get("fixed.conv.fixed_instants", 0) + tot.get("db.conv.instants", 0),
        "rule": "fixed offsets (OffsetDateTime and manual TimeZone, incl. a std+dst split): %s, restricted for the verdict to "
                "instants where t+offset stays inside the int32 day arithmetic (the rest is C09's); round trip, fields vs int64 "
                "civil oracle, Unix variants (+946684800 where representable), conversion to another offset, compareTo with the same instant, the next second and the instant mirrored in the valid range under another offset (distances up to 2^32-1 s; the counters say how many pairs lie more than 2^31 s apart). Database "
                "zones of both registries as plain and manager-created values: +-3 s around every transition, a 3-day grid, 200 "
                "seeded instants, converted to two other database zones, a managed zone and a manual zone (also at the targets' "
                "transitions): instant preserved, compareTo 0 / ordered. distinct = distinct (offset|zone, instant) cases on the "
                "-O2 build." % ("all 2^32 instants for 9 offsets" if exhaustive else
                                "stride 997 s plus all day boundaries +-2 s and both range edges for 139 offsets -16:00..+16:00"),
        "samples": samples[:6],
        "counters": tot,
        "exhaustive": bool(exhaustive),
    })
    return v.finish()
