"""C17 - TimePeriod, TimeOffset and mutation helpers keep stated ranges and inverses."""
import vlib
from vlib import VERIF, Verdict, build, run_shards


def run(tier):
    v = Verdict("C17", tier)
    exe = build(VERIF / "native" / "calendar.cpp", "sanrec")
    r = run_shards(exe, [["--mode", "c17"]], san="rec", timeout=1800)
    v.absorb(r, "c17")
    c = r.counters
    need = {"c17.period_seconds": 1843199, "c17.offset_pairs": 30000, "c17.inc15": 1921,
            "c17.increment_cases": 256 * 7, "c17.offset_minutes": 65535, "c17.date_mutation_cases": 180000}
    for k, n in need.items():
        if c.get(k, 0) < n:
            v.inconclusive_because("counter %s=%s below %s" % (k, c.get(k, 0), n))
    v.coverage.update({
        "evaluations": sum(n for k, n in c.items() if k.startswith("c17.") and not k.startswith("c17.info")),
        "distinct_nontrivial": c.get("c17.period_seconds", 0) + c.get("c17.offset_roundtrip", 0) + c.get("c17.inc15", 0)
        + c.get("c17.increment_cases", 0),
        "rule": "exhaustive: every TimePeriod second count -921599..921599 (round trip, ranges, sign, negate, adjacent order) "
                "+ 2M seeded pairs for compareTo; every sign-consistent int8 (hour,minute) pair and every int16 minute count for "
                "TimeOffset; increment15Minutes from each of -960..960 and its cycle; every increment helper from every byte "
                "value (and every limit 1..255); incrementOneDay / decrementOneDay from every date 1873-01-01..2127-12-31 (day within the real month length, calendar successor / predecessor). distinct = distinct period values + distinct (h,m) round trips + distinct "
                "increment start values. Run under ASan+UBSan.",
        "samples": r.samples[:6] + [{"kind": "increment15Minutes", "from": 960, "to": -960},
                                    {"kind": "incrementYear from outside [0,99] (information only)",
                                     "count": c.get("c17.info_incrementYear_from_outside_stays_outside", 0)}],
        "counters": c,
        "exhaustive": True,
    })
    v.assumptions += ["AceCommon incrementMod/incrementModOffset re-implemented in /verif/shim from documented behaviour",
                      "incrementYear from tiny years outside [0,99] is informational: the documentation defines the cycle, not a clamp"]
    return v.finish()
