"""C07 - local time resolution: identity if unique, forward in gaps, valid in overlaps."""
import random
import vlib
from vlib import VERIF, Verdict, build, run_shards

N = vlib.NCPU


def run(tier):
    v = Verdict("C07", tier)
    drv = VERIF / "native" / "localres.cpp"
    fast = build(drv, "fast")
    san = build(drv, "sanrec")
    seed = vlib.seed()
    tot, samples = {}, []

    def go(exe, args, san_mode, what):
        r = run_shards(exe, args, san=san_mode, timeout=7000)
        v.absorb(r, what)
        for k, n in r.counters.items():
            tot[k] = tot.get(k, 0) + n
            tot[what + "." + k] = n
        samples.extend(r.samples)

    # the zones' real instant -> offset functions: zic on the lines recorded beside the shipped tables (as in C01/C02)
    import zicoracle
    from vlib import REPO
    work = vlib.scratch()
    oargs = []
    try:
        for flag, dbdir in (("--oracle-ext", "zonedbx"), ("--oracle-basic", "zonedb")):
            ora = zicoracle.build_shipped_oracle(REPO, dbdir, work / dbdir)
            of = work / (dbdir + ".oracle.bin")
            zicoracle.write_oracle_file(of, dict(ora["segments"]), list(ora["names"]))
            oargs += [flag, of]
    except zicoracle.OracleError as e:
        v.inconclusive_because("oracle: %s" % e)
        v.coverage.update({"evaluations": 1, "distinct_nontrivial": 2, "rule": "oracle construction failed", "samples": [str(e)]})
        return v.finish()
    S = 4 * N
    nrand = 2000 if tier == "quick" else 50000
    go(fast, [["--mode", "c07", "--random", nrand, "--seed", seed, "--shard", "%d/%d" % (i, S)] + oargs for i in range(S)], None, "all")
    if tier == "quick":
        rng = random.Random(seed)
        third = rng.sample(range(S), S // 3)
        go(san, [["--mode", "c07", "--random", 200, "--seed", seed + 1, "--shard", "%d/%d" % (i, S)] + oargs for i in third], "rec", "san")
    else:
        go(san, [["--mode", "c07", "--random", 2000, "--seed", seed + 1, "--shard", "%d/%d" % (i, S)] + oargs for i in range(S)], "rec", "san")
    if tot.get("all.local.zones", 0) != 268 + 387 and tot.get("all.local.zones", 0) < 600:
        v.inconclusive_because("zones visited: %s" % tot.get("all.local.zones"))
    if tot.get("local.gap", 0) < 10000 or tot.get("local.overlap", 0) < 10000 or tot.get("local.unique", 0) < 100000:
        v.inconclusive_because("deciding counters too low: %r" % tot)
    v.coverage.update({
        "evaluations": tot.get("local.cases", 0),
        "distinct_nontrivial": tot.get("all.local.gap", 0) + tot.get("all.local.overlap", 0),
        "rule": "every zone of zonedb (basic processor) and zonedbx (extended processor): every minute from 200 min before to 200 "
                "min after the wall-clock image of every transition the zone has in 2000..2049 (found by scanning the zone's "
                "real instant->offset function: zic's reading of the Zone/Rule lines recorded beside the shipped tables, the oracle of C01/C02), seconds -61..+60 around "
                "each gap/overlap edge, and %d seeded random wall times per zone. Oracle per case: the set {L-o : offset(L-o)=o}; "
                "1 element: identity; 2: must be one of them (extended: the later); 0: L minus the offset before the gap; always "
                "non-error, normalised and carrying the offset in force. distinct = distinct gap + overlap wall times. "
                "ASan+UBSan on %s." % (nrand, "a seed-chosen third of the shards" if tier == "quick" else "all zones"),
        "samples": samples[:6],
        "counters": tot,
    })
    v.assumptions += ["instant->offset of each zone is zic's (same oracle and self-check as C01/C02), so a processor whose epoch path and "
                      "local path are wrong in the same way is still caught (seeded change C07v); transitions closer than 30 min to each "
                      "other could be missed as probe centres (not as oracle)"]
    return v.finish()
