#!/venv/bin/python
"""One-off: record name -> zone id of this release into data/zone_ids_baseline.json (C11 'stable' oracle)."""
import json, sys
from pathlib import Path
sys.path.insert(0, str(Path(__file__).resolve().parent))
import srcparse
out = {}
for db in ("zonedb", "zonedbx"):
    d = srcparse.parse_zone_infos_h("/repo/src/ace_time/%s/zone_infos.h" % db)
    for sym, val, name in d["ids"]:
        assert out.get(name, val) == val
        assert srcparse.djb2(name) == val, name
        out[name] = val
Path(__file__).resolve().parent.parent.joinpath("data", "zone_ids_baseline.json").write_text(
    json.dumps({"source": "seandst/AceTime 1.2.1 (tz 2020d) zone_infos.h of zonedb and zonedbx", "ids": out}, indent=0, sort_keys=True))
print(len(out), "ids recorded")
