"""The reference oracle for time-zone semantics: zic, read directly (DESIGN.md 2.3).

* reconstruct_source(): Zone/Rule/Link text from the comments recorded beside the shipped C++ tables
* compile_segments():   era-split trick + `zic -b fat` + own TZif v2 reader -> per-zone segment lists
* self_check():         the unsplit compilation read by CPython's zoneinfo must agree
* write_oracle_file():  flat binary file the native drivers mmap
"""
import os
import re
import struct
import subprocess
from pathlib import Path

EPOCH_SHIFT = 946684800          # AceTime epoch (2000-01-01T00:00:00Z) in Unix seconds
DOMAIN_END_YEAR = 2050
SPLIT_YEAR = 2051


class OracleError(Exception):
    """Oracle construction failed: always *inconclusive*, never a violation."""


# --------------------------------------------------------------------------- reconstruct

def reconstruct_source(dbdir):
    """Return (zones, rules, links) from zone_infos.cpp / zone_policies.cpp / zone_infos.h comments.

    zones: {name: [era_line, ...]} where era_line = 'STDOFF RULES FORMAT [UNTIL...]'
    rules: {policy: [rule_line, ...]}   (full 'Rule NAME FROM TO - IN ON AT SAVE LETTER')
    links: {link: target}
    """
    dbdir = Path(dbdir)
    zones = {}
    cur = None
    in_eras = False
    lines = (dbdir / "zone_infos.cpp").read_text().splitlines()
    for i, ln in enumerate(lines):
        m = re.match(r"^// Zone name: (\S+)", ln)
        if m:
            cur = m.group(1)
            zones[cur] = []
            in_eras = False
            continue
        if re.match(r"^static const (basic|extended)::ZoneEra kZoneEra\w+\[\]", ln):
            in_eras = True
            continue
        if in_eras and ln.startswith("};"):
            in_eras = False
            continue
        if in_eras:
            m = re.match(r"^  //\s+(\S.*?)\s*$", ln)
            if m and i + 1 < len(lines) and lines[i + 1].strip() == "{":
                zones[cur].append(" ".join(m.group(1).split()))
    rules = {}
    curp = None
    for ln in (dbdir / "zone_policies.cpp").read_text().splitlines():
        m = re.match(r"^// Policy name: (\S+)", ln)
        if m:
            curp = m.group(1)
            rules[curp] = []
            continue
        m = re.match(r"^  // (Rule\s+\S.*?)\s*$", ln)
        if m and curp is not None:
            rules[curp].append(" ".join(m.group(1).split()))
    links = {}
    for ln in (dbdir / "zone_infos.h").read_text().splitlines():
        m = re.match(r"^extern const \w+::ZoneInfo& kZone\w+; // (\S+) -> (\S+)", ln)
        if m:
            links[m.group(1)] = m.group(2)
    return zones, rules, links


def source_text(zones, rules, links=None, split=True, only=None):
    """Render zic source.  With split=True the last era of every zone is cut at SPLIT_YEAR so that
    zic has to materialise every transition of the domain explicitly (no POSIX footer needed)."""
    out = []
    used_rules = set()
    for name in sorted(zones):
        if only is not None and name not in only:
            continue
        eras = zones[name]
        for i, era in enumerate(eras):
            f = era.split()
            if f[1] not in ("-",) and not re.match(r"^-?\d", f[1]):
                used_rules.add(f[1])
            pre = "Zone %s " % name if i == 0 else "\t\t\t"
            last = i == len(eras) - 1
            if last and len(f) > 3:
                # recorded last era carries an UNTIL (zone truncated by the compiler): keep as is
                out.append(pre + era)
                out.append("\t\t\t" + " ".join(f[:3]))
            elif last and split:
                out.append(pre + era + " %d" % SPLIT_YEAR)
                out.append("\t\t\t" + era)
            else:
                out.append(pre + era)
    rout = []
    for pol in sorted(rules):
        if pol in used_rules or only is None:
            for r in rules[pol]:
                rout.append(r)
    lout = []
    if links:
        for l in sorted(links):
            if only is None or links[l] in only:
                lout.append("Link %s %s" % (links[l], l))
    return "\n".join(rout + out + lout) + "\n"


# --------------------------------------------------------------------------- zic + TZif

def run_zic(text, outdir, extra_args=()):
    outdir = Path(outdir)
    outdir.mkdir(parents=True, exist_ok=True)
    src = outdir / "source.zi"
    src.write_text(text)
    dest = outdir / "tz"
    dest.mkdir(exist_ok=True)
    p = subprocess.run(["zic", "-b", "fat", "-d", str(dest)] + list(extra_args) + [str(src)],
                       capture_output=True, text=True)
    if p.returncode != 0:
        raise OracleError("zic failed: " + p.stderr[-2000:])
    return dest, p.stderr


def read_tzif(path):
    """Parse the 64-bit block of a TZif v2+ file -> (segments, footer).

    segments: [(start_unix or None, utoff, isdst, abbr)] with consecutive duplicates merged."""
    data = Path(path).read_bytes()
    if data[:4] != b"TZif":
        raise OracleError("not a TZif file: %s" % path)
    ver = data[4:5]

    def header(off):
        return struct.unpack(">6l", data[off + 20:off + 44])
    isutcnt, isstdcnt, leapcnt, timecnt, typecnt, charcnt = header(0)
    off = 44 + timecnt * 4 + timecnt + typecnt * 6 + charcnt + leapcnt * 8 + isstdcnt + isutcnt
    if ver < b"2":
        raise OracleError("TZif v1 only: %s" % path)
    if data[off:off + 4] != b"TZif":
        raise OracleError("second header missing: %s" % path)
    isutcnt, isstdcnt, leapcnt, timecnt, typecnt, charcnt = header(off)
    p = off + 44
    times = struct.unpack(">%dq" % timecnt, data[p:p + 8 * timecnt])
    p += 8 * timecnt
    idxs = data[p:p + timecnt]
    p += timecnt
    ttinfos = []
    for i in range(typecnt):
        utoff, isdst, abbrind = struct.unpack(">lBB", data[p:p + 6])
        ttinfos.append((utoff, isdst, abbrind))
        p += 6
    chars = data[p:p + charcnt]
    p += charcnt + leapcnt * 12 + isstdcnt + isutcnt
    footer = data[p:].strip().decode("ascii", "replace")

    def abbr(ix):
        e = chars.index(b"\0", ix)
        return chars[ix:e].decode("ascii")
    segs = []
    # time before the first transition: type 0 per RFC 8536 (zic -b fat emits a first transition at -2^59 or the Big Bang)
    first = ttinfos[0]
    segs.append((None, first[0], first[1], abbr(first[2])))
    for t, ix in zip(times, idxs):
        ti = ttinfos[ix]
        seg = (t, ti[0], ti[1], abbr(ti[2]))
        if segs and segs[-1][1:] == seg[1:]:
            continue
        segs.append(seg)
    return segs, footer


def compile_segments(text, workdir, names):
    """zic-compile `text` (already era-split) and return {name: segments}."""
    dest, warn = run_zic(text, workdir)
    out = {}
    for n in names:
        f = dest / n
        if not f.exists():
            raise OracleError("zic produced no file for %s" % n)
        segs, footer = read_tzif(f)
        out[n] = segs
    return out, warn


def lookup(segs, t_unix):
    """Segment in force at unix time t (linear from the end; used by python-side checks)."""
    lo, hi = 0, len(segs) - 1
    while lo < hi:
        mid = (lo + hi + 1) // 2
        s = segs[mid][0]
        if s is not None and s <= t_unix:
            lo = mid
        elif s is None:
            lo = mid
        else:
            hi = mid - 1
    return segs[lo]


def self_check(text_unsplit, segs_by_name, workdir, names, start_year=2000, until_year=DOMAIN_END_YEAR, max_zones=None):
    """Independent reader: compile the *unsplit* source and evaluate with CPython's zoneinfo
    (which does evaluate POSIX footers).  Returns list of disagreements (should be empty)."""
    import datetime as dt
    import zoneinfo
    dest, _ = run_zic(text_unsplit, Path(workdir) / "unsplit")
    lo = int(dt.datetime(start_year, 1, 1, tzinfo=dt.timezone.utc).timestamp())
    hi = int(dt.datetime(until_year, 1, 1, tzinfo=dt.timezone.utc).timestamp())
    bad = []
    checked = 0
    for n in (names if max_zones is None else names[:max_zones]):
        with open(dest / n, "rb") as f:
            z = zoneinfo.ZoneInfo.from_file(f, key=n)
        # When zic cannot express the zone's future as a POSIX TZ string (e.g. a rule day that spills into the next
        # year) the unsplit file has an empty footer and zoneinfo simply keeps the last explicit type: beyond the last
        # explicit transition of that file there is nothing to compare with.
        usegs, ufooter = read_tzif(dest / n)
        zi_limit = hi
        if not ufooter:
            explicit = [s0[0] for s0 in usegs if s0[0] is not None]
            zi_limit = (max(explicit) if explicit else lo)
        segs = segs_by_name[n]
        pts = set(range(lo, hi, 86400 * 61 + 3600 * 7))
        for s in segs:
            if s[0] is not None and lo <= s[0] < hi:
                pts.update((s[0] - 1, s[0], s[0] + 1))
        for t in sorted(pts):
            if not (lo <= t < hi) or t >= zi_limit:
                continue
            u = dt.datetime.fromtimestamp(t, dt.timezone.utc)
            d = u.astimezone(z)
            want = lookup(segs, t)
            if want[0] is None and want[2]:
                # before the first transition zoneinfo substitutes "the first standard-time type" for the file's type 0
                # (RFC 8536 says type 0): when type 0 is a DST type the two readers legitimately differ; not compared
                continue
            # the offset fromutc() really applied (d.utcoffset() would look the *local* time up again, which is
            # ambiguous when two transitions fall within the same local hour)
            applied = int((d.replace(tzinfo=None) - u.replace(tzinfo=None)).total_seconds())
            checked += 1
            if applied != want[1] or (int(d.utcoffset().total_seconds()) == applied and d.tzname() != want[3]):
                bad.append((n, t, (applied, d.tzname()), want))
                break
    return bad, checked


# --------------------------------------------------------------------------- binary file for the drivers

def write_oracle_file(path, segs_by_name, order):
    """Layout: 'VZIC' u32 nzones; nzones x {char name[64]; u32 first; u32 count}; segments x {i64 start; i32 utoff; i32 isdst; char abbr[8]}"""
    zone_tab = b""
    seg_blob = b""
    first = 0
    for n in order:
        segs = segs_by_name[n]
        zone_tab += struct.pack("<64sII", n.encode(), first, len(segs))
        for (start, utoff, isdst, ab) in segs:
            st = -(1 << 62) if start is None else start - EPOCH_SHIFT
            seg_blob += struct.pack("<qii8s", st, utoff, isdst, ab.encode()[:7])
        first += len(segs)
    Path(path).write_bytes(b"VZIC" + struct.pack("<I", len(order)) + zone_tab + seg_blob)


def build_shipped_oracle(repo, db, workdir, self_check_zones=None):
    """Oracle for one shipped database ('zonedb' | 'zonedbx').  Returns dict with segments, order, stats."""
    zones, rules, links = reconstruct_source(Path(repo) / "src" / "ace_time" / db)
    names = sorted(zones)
    if not names or any(not zones[n] for n in names):
        raise OracleError("could not reconstruct source lines for %s (%d zones)" % (db, len(names)))
    text = source_text(zones, rules, None, split=True)
    segs, warn = compile_segments(text, Path(workdir) / (db + "-split"), names)
    text_u = source_text(zones, rules, None, split=False)
    bad, checked = self_check(text_u, segs, Path(workdir) / db, names, max_zones=self_check_zones)
    if bad:
        raise OracleError("oracle self-check failed (own TZif reader vs zoneinfo): %r" % (bad[:3],))
    return {"zones": zones, "rules": rules, "links": links, "names": names, "segments": segs,
            "selfcheck_points": checked, "source": text}
