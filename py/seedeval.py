#!/venv/bin/python
"""Run registered checks against a seeded change: apply patch to /repo, run checks, always restore.
usage: seedeval.py <patch.diff> <tier> <check> [<check>...]"""
import subprocess, sys, time
from pathlib import Path
patch, tier, checks = sys.argv[1], sys.argv[2], sys.argv[3:]
def sh(c): return subprocess.run(c, shell=True, capture_output=True, text=True)
assert sh("git -C /repo status --porcelain").stdout.strip() == "", "/repo not clean"
r = sh("git -C /repo apply %s" % patch)
if r.returncode: print("APPLY FAILED", r.stderr); sys.exit(2)
try:
    for c in checks:
        t0 = time.time()
        p = sh("cd /verif && ./check %s --tier %s" % (c, tier))
        fired = ("VIOLATION property=%s" % c) in p.stdout and p.returncode == 1
        keys = [l.strip() for l in p.stdout.splitlines() if l.startswith("  key=")]
        print("%s %s rc=%d %.0fs %s" % (c, "CAUGHT" if fired else "MISSED", p.returncode, time.time() - t0, "; ".join(k[:160] for k in keys[:3])))
        if not fired: print("   tail:", (p.stdout + p.stderr)[-300:].replace("\n", " | "))
finally:
    sh("git -C /repo checkout -- .")
    sh("cd /verif && git checkout -- evidence")
    assert sh("git -C /repo status --porcelain").stdout.strip() == ""
