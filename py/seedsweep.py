#!/venv/bin/python
"""Re-run every stored seeded change (seeded/*/patch.diff) against the check of its property, on the repository
named by VERIF_REPO (a scratch snapshot, never /repo itself unless asked), and print one line per change.
usage: VERIF_REPO=<repo copy> seedsweep.py [tier] [id-substring]"""
import json, os, subprocess, sys, time
from pathlib import Path
HERE = Path(__file__).resolve().parent
VERIF = HERE.parent
repo = os.environ.get("VERIF_REPO", "/repo")
tier = sys.argv[1] if len(sys.argv) > 1 else "quick"
flt = sys.argv[2] if len(sys.argv) > 2 else ""
def sh(c): return subprocess.run(c, shell=True, capture_output=True, text=True)
assert sh("git -C %s status --porcelain" % repo).stdout.strip() == "", "repo copy not clean"
missed = []
for d in sorted((VERIF / "seeded").iterdir()):
    if flt and flt not in d.name: continue
    meta = json.loads((d / "meta.json").read_text())
    prop = meta["property"]
    if meta.get("not_observable_by_own_property"):
        print("%-6s not observable by %s: %s" % (d.name, prop, meta["not_observable_by_own_property"])); continue
    if meta.get("superseded"):
        print("%-6s superseded: %s" % (d.name, meta["superseded"])); continue
    r = sh("git -C %s apply %s" % (repo, d / "patch.diff"))
    if r.returncode:
        print("%-6s APPLY-FAILED %s" % (d.name, r.stderr.strip()[:120])); continue
    try:
        t0 = time.time()
        p = sh("cd %s && ./check %s --tier %s" % (VERIF, prop, tier))
        fired = ("VIOLATION property=%s" % prop) in p.stdout and p.returncode == 1
        keys = [l.strip()[4:70] for l in p.stdout.splitlines() if l.startswith("  key=")]
        print("%-6s %s %s rc=%d %.0fs %s" % (d.name, prop, "CAUGHT" if fired else "MISSED", p.returncode, time.time() - t0, "; ".join(keys[:2])), flush=True)
        if not fired: missed.append(d.name)
    finally:
        sh("git -C %s checkout -- ." % repo)
print("missed:", missed)
