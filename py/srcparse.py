"""Parsers for the shipped generated C++ headers (zone_infos.h) - used by C11 and others."""
import re
from pathlib import Path

ZONE_RE = re.compile(r"^extern const (basic|extended)::ZoneInfo (kZone\w+); // (\S+)\s*$")
ID_RE = re.compile(r"^const uint32_t (kZoneId\w+) = (0x[0-9a-fA-F]+); // (\S+)\s*$")
LINK_RE = re.compile(r"^extern const (basic|extended)::ZoneInfo& (kZone\w+); // (\S+) -> (\S+)\s*$")


def parse_zone_infos_h(path):
    zones, ids, links = [], [], []
    counts = {}
    for ln in Path(path).read_text().splitlines():
        m = ZONE_RE.match(ln)
        if m:
            zones.append((m.group(2), m.group(3)))
            continue
        m = ID_RE.match(ln)
        if m:
            ids.append((m.group(1), int(m.group(2), 16), m.group(3)))
            continue
        m = LINK_RE.match(ln)
        if m:
            links.append((m.group(2), m.group(3), m.group(4)))
            continue
        m = re.match(r"^// (Supported zones|Supported links|Unsupported zones|Unsupported links|Notable zones|Notable links): (\d+)", ln)
        if m:
            counts[m.group(1)] = int(m.group(2))
    return {"zones": zones, "ids": ids, "links": links, "counts": counts}


def djb2(name):
    h = 5381
    for ch in name.encode():
        h = (33 * h + ch) & 0xFFFFFFFF
    return h
