"""Shared machinery for the AceTime runtime-monitoring checks (DESIGN.md section 2).

* build():      compile /repo's C++ library + one native driver into a scratch dir
* run_shards(): run a driver as N isolated processes, collect JSON-line events,
                sanitizer report blocks, crashes and CPU-budget overruns
* Verdict:      three-valued result, known-findings classification, evidence file
"""
import atexit
import concurrent.futures as cf
import hashlib
import json
import os
import re
import shutil
import signal
import subprocess
import sys
import tempfile
import time
from pathlib import Path

VERIF = Path(__file__).resolve().parent.parent
REPO = Path(os.environ.get("VERIF_REPO", "/repo"))
NCPU = int(os.environ.get("VERIF_JOBS", os.cpu_count() or 4))
GUARD = "SEANDST_ACETIME_VERIF"
CXX = os.environ.get("VERIF_CXX", "clang++")

EXIT_HELD, EXIT_VIOLATED, EXIT_INCONCLUSIVE = 0, 1, 2

_scratch_dirs = []


def scratch(prefix="acetime-verif-"):
    d = tempfile.mkdtemp(prefix=prefix)
    _scratch_dirs.append(d)
    return Path(d)


def _cleanup():
    for d in _scratch_dirs:
        shutil.rmtree(d, ignore_errors=True)


atexit.register(_cleanup)


def _sigterm(signum, frame):
    _cleanup()
    os._exit(143)


signal.signal(signal.SIGTERM, _sigterm)


# ---------------------------------------------------------------------------
# Build
# ---------------------------------------------------------------------------

VARIANTS = {
    "fast": ["-O2"],
    "san": ["-O1", "-g", "-fno-omit-frame-pointer",
            "-fsanitize=address,undefined", "-fno-sanitize-recover=all"],
    # report-and-continue: exploring runs count report blocks instead of dying
    "sanrec": ["-O1", "-g", "-fno-omit-frame-pointer",
               "-fsanitize=address,undefined", "-fsanitize-recover=all"],
    # the same at -O0: nothing is optimised away, so a dead out-of-bounds load is still executed and seen
    "sanrec0": ["-O0", "-g", "-fno-omit-frame-pointer",
                "-fsanitize=address,undefined", "-fsanitize-recover=all"],
    "ubrec": ["-O1", "-g", "-fno-omit-frame-pointer",
              "-fsanitize=undefined", "-fsanitize-recover=all"],
    "vg": ["-O1", "-g", "-gdwarf-4"],   # valgrind 3.19 cannot read clang 14's default DWARF 5
}

COMMON_FLAGS = ["-std=gnu++11", "-DUNIX_HOST_DUINO", "-Wno-everything"]


def lib_sources(repo=REPO, with_db=True):
    src = repo / "src" / "ace_time"
    files = sorted(src.glob("*.cpp")) + [src / "common" / "DateStrings.cpp"]
    if with_db:
        files += sorted((src / "zonedb").glob("*.cpp"))
        files += sorted((src / "zonedbx").glob("*.cpp"))
    return files


def _compile_one(args):
    cmd, out = args
    p = subprocess.run(cmd, capture_output=True, text=True)
    return cmd, p.returncode, p.stderr


class BuildError(Exception):
    pass


def build(driver, variant="fast", extra_sources=(), defines=(), includes=(),
          with_db=True, repo=REPO, outdir=None, name=None, lib_objs=None, extra_objects=()):
    """Compile the real library (from the working tree) plus `driver`.

    Returns the path of the linked binary inside a scratch directory that is
    removed at interpreter exit.  Nothing is cached between runs.
    """
    outdir = Path(outdir) if outdir else scratch()
    flags = list(COMMON_FLAGS) + VARIANTS[variant]
    flags += ["-I", str(VERIF / "shim"), "-I", str(repo / "src"),
              "-I", str(VERIF / "native")]
    for inc in includes:
        flags += ["-I", str(inc)]
    if os.environ.get(GUARD) == "1":
        flags.append("-DACE_TIME_VERIF_HOOKS=1")
    for d in defines:
        flags.append("-D" + d)
    jobs = []
    objs = []
    srcs = []
    if lib_objs is None:
        srcs += list(lib_sources(repo, with_db)) + [VERIF / "shim" / "shim.cpp"]
    else:
        objs += list(lib_objs)
    srcs += [Path(driver)] + [Path(s) for s in extra_sources]
    for i, s in enumerate(srcs):
        o = outdir / ("%03d_%s_%s.o" % (i, variant, Path(s).stem))
        objs.append(o)
        jobs.append(([CXX] + flags + ["-c", str(s), "-o", str(o)], o))
    with cf.ThreadPoolExecutor(max_workers=NCPU) as ex:
        for cmd, rc, err in ex.map(_compile_one, jobs):
            if rc != 0:
                raise BuildError("compile failed: %s\n%s" % (" ".join(cmd), err[-4000:]))
    exe = outdir / (name or (Path(driver).stem + "_" + variant))
    link = [CXX] + VARIANTS[variant] + [str(o) for o in objs] + [str(o) for o in extra_objects] + ["-o", str(exe)]
    p = subprocess.run(link, capture_output=True, text=True)
    if p.returncode != 0:
        raise BuildError("link failed:\n" + p.stderr[-4000:])
    return exe


def build_gen_objects(sources, variant, includes=(), outdir=None, repo=REPO):
    """Compile generated table sources on their own (two scopes generate files of the same name)."""
    outdir = Path(outdir) if outdir else scratch()
    outdir.mkdir(parents=True, exist_ok=True)
    flags = list(COMMON_FLAGS) + VARIANTS[variant] + ["-I", str(VERIF / "shim"), "-I", str(repo / "src")]
    for inc in includes:
        flags += ["-I", str(inc)]
    jobs, objs = [], []
    for i, s in enumerate(sources):
        o = outdir / ("gen%02d_%s.o" % (i, Path(s).stem))
        objs.append(o)
        jobs.append(([CXX] + flags + ["-c", str(s), "-o", str(o)], o))
    with cf.ThreadPoolExecutor(max_workers=NCPU) as ex:
        for cmd, rc, err in ex.map(_compile_one, jobs):
            if rc != 0:
                raise BuildError("compile failed: %s\n%s" % (" ".join(cmd), err[-4000:]))
    return objs


def build_lib_objs(variant, repo=REPO, with_db=True, outdir=None, defines=()):
    """Compile only the library objects (to be shared by several drivers)."""
    outdir = Path(outdir) if outdir else scratch()
    flags = list(COMMON_FLAGS) + VARIANTS[variant]
    flags += ["-I", str(VERIF / "shim"), "-I", str(repo / "src")]
    if os.environ.get(GUARD) == "1":
        flags.append("-DACE_TIME_VERIF_HOOKS=1")
    for d in defines:
        flags.append("-D" + d)
    jobs, objs = [], []
    for i, s in enumerate(list(lib_sources(repo, with_db)) + [VERIF / "shim" / "shim.cpp"]):
        o = outdir / ("lib%03d_%s_%s.o" % (i, variant, Path(s).stem))
        objs.append(o)
        jobs.append(([CXX] + flags + ["-c", str(s), "-o", str(o)], o))
    with cf.ThreadPoolExecutor(max_workers=NCPU) as ex:
        for cmd, rc, err in ex.map(_compile_one, jobs):
            if rc != 0:
                raise BuildError("compile failed: %s\n%s" % (" ".join(cmd), err[-4000:]))
    return objs


# ---------------------------------------------------------------------------
# Running drivers
# ---------------------------------------------------------------------------

SAN_ENV = {
    "ASAN_OPTIONS": "detect_leaks=0:abort_on_error=0:halt_on_error=1:allocator_may_return_null=1",
    "UBSAN_OPTIONS": "print_stacktrace=1:halt_on_error=1",
}
SANREC_ENV = {
    "ASAN_OPTIONS": "detect_leaks=0:halt_on_error=0:allocator_may_return_null=1",
    "UBSAN_OPTIONS": "print_stacktrace=1:halt_on_error=0",
}

_UB_RE = re.compile(r"^(\S+?):(\d+):(\d+): runtime error: (.*)$")
_ASAN_RE = re.compile(r"ERROR: AddressSanitizer: (\S+)")
_FRAME_RE = re.compile(r"^\s+#\d+ 0x[0-9a-f]+ in (.+?) (/\S+?):(\d+)")


def parse_sanitizer(stderr_text, repo=REPO):
    """Split sanitizer output into report blocks: (kind, site, message)."""
    blocks = []
    lines = stderr_text.splitlines()
    i = 0
    repo_s = str(repo)
    while i < len(lines):
        ln = lines[i]
        m = _UB_RE.match(ln)
        a = _ASAN_RE.search(ln)
        if m or a:
            if m:
                kind = "ubsan:" + classify_ub(m.group(4))
                msg = m.group(4)
                if kind == "ubsan:signed-integer-overflow":
                    kind += "[" + overflow_class(msg) + "]"
                site = "%s:%s" % (rel(m.group(1), repo_s), m.group(2))
                ub_path, ub_line = os.path.normpath(m.group(1)), int(m.group(2))
            else:
                kind = "asan:" + a.group(1)
                msg = ln.strip()
                site = None
            # innermost repository frame
            fn = None
            j = i + 1
            while j < len(lines) and j < i + 40:
                f = _FRAME_RE.match(lines[j])
                if f:
                    if repo_s in f.group(2) or "/verif/" in f.group(2):
                        if site is None and repo_s in f.group(2):
                            site = "%s:%s" % (rel(f.group(2), repo_s), f.group(3))
                        if fn is None and repo_s in f.group(2):
                            fn = f.group(1)
                elif lines[j].strip() == "" and j > i + 1:
                    break
                elif _UB_RE.match(lines[j]) or _ASAN_RE.search(lines[j]):
                    break
                j += 1
            if m:
                fn = enclosing_function(ub_path, ub_line) or fn
            blocks.append({"kind": kind, "site": site, "function": fn, "message": msg})
        i += 1
    return blocks


_OVF_RE = re.compile(r"signed integer overflow: (-?\d+) ([*+-]) (-?\d+) cannot")


def overflow_class(msg):
    """Mechanism class of a signed-overflow report, from its operands (so that a different
    overflow at an already known site is not absorbed by the known finding)."""
    if "negation of -2147483648" in msg:
        return "negate-int32-min"
    m = _OVF_RE.search(msg)
    if not m:
        return "other"
    a, op, b = int(m.group(1)), m.group(2), int(m.group(3))
    if op == "*":
        if 86400 in (a, b):
            other = b if a == 86400 else a
            return "days-to-seconds:partial-day-at-int32-edge" if abs(other) <= 24856 else "days-to-seconds:date-beyond-int32-seconds"
        return "other-product"
    small = min(abs(a), abs(b))
    if 946684800 in (abs(a), abs(b)):
        return "unix-epoch-shift-at-int32-edge"
    if 2451545 in (abs(a), abs(b)):
        return "julian-day-shift-at-int32-edge"
    if small <= 32768 * 60:
        return "small-addend-at-int32-edge"      # a UTC offset (<= 32768 min) or a time of day
    return "other-sum"


def rel(path, repo_s):
    path = os.path.normpath(path)
    return path[len(repo_s) + 1:] if path.startswith(repo_s + "/") else path


_FUNC_RE = re.compile(r"^\s*(?:static\s+|inline\s+|virtual\s+|explicit\s+|const\s+)*[\w:<>\*&]+(?:\s+[\w:<>\*&]+)*\s+[\*&]?(~?\w+)\s*\([^;]*$")
_NOT_FUNC = {"if", "for", "while", "switch", "return", "else", "do", "sizeof", "catch"}
_src_cache = {}


def enclosing_function(path, line):
    """Name of the function containing path:line, found by scanning the source upwards.
    Deterministic for a given tree, unlike symbolised frames (which depend on inlining)."""
    try:
        lines = _src_cache.setdefault(path, Path(path).read_text(errors="replace").splitlines())
    except OSError:
        return None
    i = min(line, len(lines)) - 1
    while i >= 0:
        ln = lines[i]
        m = _FUNC_RE.match(ln)
        if m and m.group(1) not in _NOT_FUNC and not ln.strip().startswith(("//", "*", "return", "?", ":")):
            return m.group(1)
        m2 = re.match(r"^\s*(?:explicit\s+)?(~?\w+)\s*\([^;]*\)?\s*(?::|\{)?\s*$", ln)   # constructors
        if m2 and m2.group(1) not in _NOT_FUNC and m2.group(1)[:1].isupper() and "(" in ln and not ln.strip().startswith(("//", "*")):
            return m2.group(1)
        i -= 1
    return None


def classify_ub(msg):
    if "signed integer overflow" in msg:
        return "signed-integer-overflow"
    if "null pointer" in msg:
        return "null"
    if "out of bounds" in msg:
        return "bounds"
    if "shift" in msg:
        return "shift"
    if "misaligned" in msg:
        return "alignment"
    if "load of value" in msg:
        return "invalid-value"
    if "division by zero" in msg:
        return "div-by-zero"
    if "negation of" in msg:
        return "signed-integer-overflow"
    if "outside the range of representable" in msg:
        return "float-cast-overflow"
    if "applying" in msg and "offset" in msg:
        return "pointer-overflow"
    return "other"


_VG_RE = re.compile(r"^==\d+== (Invalid (?:read|write) of size \d+|Conditional jump or move depends on uninitialised value\(s\)|"
                    r"Use of uninitialised value of size \d+|Syscall param .* uninitialised|Invalid free|Mismatched free|"
                    r"Source and destination overlap.*|Process terminating with default action of signal \d+.*)")
_VG_AT = re.compile(r"^==\d+==\s+(?:at|by) 0x[0-9A-F]+: (.+?) \((\S+?):(\d+)\)")


def parse_valgrind(stderr_text, repo=REPO):
    """valgrind memcheck error blocks -> same shape as sanitizer blocks (kind valgrind:<what>)."""
    blocks = []
    lines = stderr_text.splitlines()
    for i, ln in enumerate(lines):
        m = _VG_RE.match(ln)
        if not m:
            continue
        what = re.sub(r"\d+", "N", m.group(1)).replace(" ", "-")
        site, fn = None, None
        for j in range(i + 1, min(i + 25, len(lines))):
            a = _VG_AT.match(lines[j])
            if a and ("ace_time" in a.group(2) or a.group(2).endswith((".h", ".cpp"))) and "vcommon" not in a.group(2):
                fn, site = a.group(1), "%s:%s" % (a.group(2), a.group(3))
                if "/" not in a.group(2) or "ace_time" in lines[j] or True:
                    break
        blocks.append({"kind": "valgrind:" + what, "site": site, "function": fn, "message": m.group(1)})
    return blocks


class ShardResult:
    def __init__(self):
        self.counters = {}
        self.maxima = {}
        self.sets = {}
        self.witnesses = []
        self.samples = []
        self.infos = []
        self.crashes = []
        self.timeouts = []
        self.san_blocks = []
        self.nshards = 0
        self.cpu_s = 0.0

    def merge_line(self, obj):
        t = obj.get("t")
        if t == "c":
            for k, v in obj["v"].items():
                self.counters[k] = self.counters.get(k, 0) + v
        elif t == "m":
            for k, v in obj["v"].items():
                self.maxima[k] = max(self.maxima.get(k, v), v)
        elif t == "set":
            for k, v in obj["v"].items():
                self.sets.setdefault(k, set()).update(v)
        elif t == "w":
            self.witnesses.append(obj["v"])
        elif t == "s":
            self.samples.append(obj["v"])
        elif t == "i":
            self.infos.append(obj["v"])


def _run_one(args):
    idx, cmd, env, timeout, stdin_data = args
    t0 = time.time()
    try:
        p = subprocess.run(cmd, capture_output=True, env=env, timeout=timeout,
                           input=stdin_data)
        return idx, cmd, p.returncode, p.stdout, p.stderr, time.time() - t0, False
    except subprocess.TimeoutExpired as e:
        return idx, cmd, None, e.stdout or b"", e.stderr or b"", time.time() - t0, True


def run_shards(exe, arg_lists, timeout=900, env_extra=None, san=None,
               valgrind=False, max_workers=None, stdin_list=None):
    """Run `exe` once per argument list, in parallel, as isolated processes."""
    env = dict(os.environ)
    if san == "gate":
        env.update(SAN_ENV)
    elif san == "rec":
        env.update(SANREC_ENV)
    if env_extra:
        env.update(env_extra)
    jobs = []
    for i, a in enumerate(arg_lists):
        cmd = [str(exe)] + [str(x) for x in a]
        if valgrind:
            cmd = ["valgrind", "-q", "--error-exitcode=97", "--track-origins=yes",
                   "--exit-on-first-error=no"] + cmd
        jobs.append((i, cmd, env, timeout, stdin_list[i] if stdin_list else None))
    res = ShardResult()
    res.nshards = len(jobs)
    with cf.ThreadPoolExecutor(max_workers=max_workers or NCPU) as ex:
        for idx, cmd, rc, out, err, dt, timed_out in ex.map(_run_one, jobs):
            res.cpu_s += dt
            out_t = out.decode("utf-8", "replace")
            err_t = err.decode("utf-8", "replace")
            last_open = None
            for ln in out_t.splitlines():
                if not ln.startswith("{"):
                    continue
                try:
                    obj = json.loads(ln)
                except ValueError:
                    continue
                if obj.get("t") == "j":       # journal: call about to be made
                    last_open = obj["v"]
                elif obj.get("t") == "jr":    # journal: call returned
                    last_open = None
                else:
                    res.merge_line(obj)
            blocks = parse_sanitizer(err_t)
            if valgrind:
                blocks += parse_valgrind(err_t)
            for b in blocks:
                b["shard"] = idx
                b["open_call"] = last_open
            res.san_blocks.extend(blocks)
            if timed_out:
                res.timeouts.append({"shard": idx, "cmd": cmd, "open_call": last_open,
                                     "stderr_tail": err_t[-1500:]})
            elif rc != 0:
                res.crashes.append({"shard": idx, "cmd": cmd, "returncode": rc,
                                    "open_call": last_open,
                                    "stderr_tail": err_t[-3000:]})
    return res


# ---------------------------------------------------------------------------
# Known findings
# ---------------------------------------------------------------------------

def load_findings():
    p = VERIF / "known_findings.json"
    if not p.exists():
        return {"findings": [], "fixed": []}
    return json.loads(p.read_text())


# ---------------------------------------------------------------------------
# Verdict + evidence
# ---------------------------------------------------------------------------

def seed():
    try:
        return int(os.environ.get("VERIF_SEED", "0"))
    except ValueError:
        return 0


class Verdict:
    """Collects violations / inconclusive reasons and writes the evidence."""

    def __init__(self, prop, tier, level="exploration"):
        self.prop = prop
        self.tier = tier
        self.level = level
        self.t0 = time.time()
        self.violations = []     # list of dict(key=..., what=..., witness=...)
        self.inconclusive = []
        self.coverage = {"evaluations": 0, "distinct_nontrivial": 0, "rule": "",
                         "samples": []}
        self.assumptions = []
        self.notes = []

    def violation(self, key, what, witness=None):
        self.violations.append({"key": key, "what": what, "witness": witness})

    def inconclusive_because(self, why):
        self.inconclusive.append(why)

    def absorb(self, res, what="driver", allow_crash=False):
        """Fold a ShardResult's generic failure modes into the verdict."""
        for w in res.witnesses:
            self.violation(w.get("key", "unclassified"), w.get("what", ""), w)
        for b in res.san_blocks:
            self.violation("%s@%s" % (b["kind"], site_key(b)),
                           "sanitizer report: %s (%s)" % (b["message"], b.get("site")), b)
        if not allow_crash:
            for c in res.crashes:
                # a crash already explained by a sanitizer block of the same shard is
                # the same event
                if any(b["shard"] == c["shard"] for b in res.san_blocks):
                    continue
                self.violation("crash@%s" % (call_key(c.get("open_call")),),
                               "%s process died rc=%s" % (what, c["returncode"]), c)
        for t in res.timeouts:
            self.inconclusive_because("%s shard %s hit the wall-clock watchdog" % (what, t["shard"]))

    def finish(self):
        known = load_findings()
        known_keys = {(f["property"], f["key"]): f for f in known.get("findings", [])}
        new = []
        seen_known = {}
        for v in self.violations:
            k = (self.prop, v["key"])
            if k in known_keys:
                seen_known.setdefault(v["key"], []).append(v)
            else:
                new.append(v)
        for key, vs in sorted(seen_known.items()):
            print("KNOWN-FINDING: property=%s %s [%s] (%d observations)" % (
                self.prop, known_keys[(self.prop, key)]["what"], key, len(vs)))
        wall = time.time() - self.t0
        cov = self.coverage
        cov["known_findings_observed"] = {k: len(v) for k, v in seen_known.items()}
        ev = {
            "property_id": self.prop,
            "tier": self.tier,
            "seed": seed(),
            "level": self.level,
            "coverage": cov,
            "assumptions": self.assumptions,
            "wall_s": round(wall, 2),
            "violations": len(new),
        }
        if self.inconclusive:
            ev["coverage"]["inconclusive"] = self.inconclusive
        if self.notes:
            ev["coverage"]["notes"] = self.notes
        evdir = VERIF / "evidence"
        evdir.mkdir(exist_ok=True)
        if not cov.get("samples"):
            cov["samples"] = [{"note": "no sample was emitted by the drivers (they died or found nothing to sample)"}]
        (evdir / (self.prop + ".json")).write_text(json.dumps(ev, indent=1, default=_jd) + "\n")
        try:
            validate_evidence(json.loads(json.dumps(ev, default=_jd)))
        except Exception as e:  # evidence that does not validate is no evidence: inconclusive, never silent
            self.inconclusive.append("evidence file does not validate: %s" % str(e).splitlines()[0])
        if new:
            rdir = VERIF / "replay"
            rdir.mkdir(exist_ok=True)
            # group by key, one replay file per key
            bykey = {}
            for v in new:
                bykey.setdefault(v["key"], []).append(v)
            for key, vs in sorted(bykey.items()):
                h = hashlib.sha1(key.encode()).hexdigest()[:10]
                path = rdir / ("%s-%s.json" % (self.prop, h))
                path.write_text(json.dumps({"property": self.prop, "key": key,
                                            "seed": seed(), "tier": self.tier,
                                            "count": len(vs),
                                            "witnesses": vs[:20]}, indent=1, default=_jd))
                print("VIOLATION property=%s replay=%s" % (self.prop, path))
                print("  key=%s count=%d what=%s" % (key, len(vs), vs[0]["what"]))
            sys.stdout.flush()
            return EXIT_VIOLATED
        if self.inconclusive:
            for w in self.inconclusive:
                print("INCONCLUSIVE property=%s %s" % (self.prop, w))
            return EXIT_INCONCLUSIVE
        print("HELD property=%s tier=%s evaluations=%s distinct=%s wall=%.1fs" % (
            self.prop, self.tier, cov.get("evaluations"), cov.get("distinct_nontrivial"), wall))
        return EXIT_HELD


def _jd(o):
    if isinstance(o, (set, frozenset)):
        return sorted(o)
    if isinstance(o, bytes):
        return o.decode("utf-8", "replace")
    if isinstance(o, Path):
        return str(o)
    return str(o)


def site_key(b):
    """Mechanism key of a sanitizer block: file + function, line numbers stripped."""
    site = b.get("site") or "?"
    site = re.sub(r":\d+$", "", site)
    fn = b.get("function") or ""
    fn = re.sub(r"\(.*$", "", fn)
    return "%s:%s" % (site, fn) if fn else site


def call_key(open_call):
    if not open_call:
        return "?"
    if isinstance(open_call, dict):
        return str(open_call.get("op", "?"))
    return str(open_call)


def validate_evidence(ev):
    """Validate against the harness schema when jsonschema is available."""
    schema_p = Path("/root/.vp/EVIDENCE.schema.json")
    ensure_deps()
    try:
        import jsonschema  # noqa
    except Exception:
        jsonschema = None
    if jsonschema and schema_p.exists():
        jsonschema.validate(ev, json.loads(schema_p.read_text()))
    else:
        cov = ev["coverage"]
        assert cov.get("evaluations", 0) >= 1, "evidence: evaluations < 1"
        assert cov.get("distinct_nontrivial", 0) >= 2, "evidence: distinct_nontrivial < 2"
        assert cov.get("samples"), "evidence: no samples"


_deps_done = False


def ensure_deps():
    """Install icontract/deal/jsonschema into the git-ignored /verif/.deps (offline)."""
    global _deps_done
    deps = VERIF / ".deps"
    if str(deps) not in sys.path:
        sys.path.insert(0, str(deps))
    if _deps_done:
        return
    _deps_done = True
    if (deps / "icontract").exists() and (deps / "jsonschema").exists():
        return
    wheels = "/opt/veriftools/wheels"
    if not os.path.isdir(wheels):
        return
    subprocess.run([sys.executable, "-m", "pip", "install", "-q", "--no-index",
                    "--find-links", wheels, "--target", str(deps),
                    "icontract", "deal", "jsonschema"],
                   capture_output=True)


def sample(lst, n, rng=None):
    lst = list(lst)
    if len(lst) <= n:
        return lst
    step = max(1, len(lst) // n)
    return lst[::step][:n]
