#!/venv/bin/python
"""Worker process: run the real Python ZoneSpecifier over instants and compare with zic segments.

usage: pyworker.py <work.pkl> <out.json>
work = {"zone_infos": {name: zone_info}, "segments": {name: [(start_unix|None, utoff, isdst, abbr)]},
        "start_year":, "until_year":, "options": [dict(...)], "mode": "zic" | "options" | "history" | "local"}
"""
import bisect
import datetime as dt
import json
import pickle
import random
import sys
import time
from pathlib import Path

HERE = Path(__file__).resolve().parent
sys.path.insert(0, str(HERE))
import vlib  # noqa: E402
sys.path.insert(0, str(vlib.REPO / "tools"))

EPOCH_SHIFT = 946684800


def year_start(y):
    return int(dt.datetime(y, 1, 1, tzinfo=dt.timezone.utc).timestamp()) - EPOCH_SHIFT


def instants_for(segs, lo, hi, grid=6 * 3600 + 1800):
    pts = set(range(lo, hi, grid))
    for s in segs[1:]:
        b = s[0] - EPOCH_SHIFT
        for d in (-60, -1, 0, 59):
            if lo <= b + d < hi:
                pts.add(b + d)
    y = 1990
    while year_start(y) < hi:
        for d in (-1, 0, 1):
            t = year_start(y) + d
            if lo <= t < hi:
                pts.add(t)
        y += 1
    return sorted(pts)


def seg_at(starts, segs, t_unix):
    i = bisect.bisect_right(starts, t_unix) - 1
    return segs[max(i, 0)]


def run_zic_compare(work):
    from zonedb.zone_specifier import ZoneSpecifier
    out = {"witnesses": [], "counters": {}, "samples": []}
    c = out["counters"]
    lo, hi = year_start(work["start_year"]), year_start(work["until_year"])
    prop = work.get("prop", "c03")
    for name, zi in work["zone_infos"].items():
        segs = work["segments"][name]
        starts = [(-1 << 62) if s[0] is None else s[0] for s in segs]
        pts = instants_for(segs, lo, hi, grid=work.get("grid_s", 6 * 3600 + 1800))
        try:
            zs = ZoneSpecifier(zi, **work.get("zs_kwargs", {}))
        except BaseException as e:  # noqa
            out["witnesses"].append({"key": prop + ":python-interpreter-raises", "what": "ZoneSpecifier constructor raised",
                                     "zone": name, "error": repr(e)})
            continue
        c["zones"] = c.get("zones", 0) + 1
        bad = 0
        crossed = set()
        for t in pts:
            c["probes"] = c.get("probes", 0) + 1
            try:
                info = zs.get_timezone_info_for_seconds(t)
            except BaseException as e:  # noqa
                out["witnesses"].append({"key": prop + ":python-interpreter-raises", "what": "get_timezone_info_for_seconds raised",
                                         "zone": name, "epochSeconds": t, "error": repr(e)[:300]})
                bad += 1
                break
            w = seg_at(starts, segs, t + EPOCH_SHIFT)
            crossed.add(w[0])
            key = None
            if info.total_offset != w[1]:
                key, what = ":offset-differs", "total UTC offset differs from zic"
            elif (info.dst_offset != 0) != (w[2] != 0):
                key, what = ":dst-flag-differs", "DST-in-effect flag differs from zic"
            elif info.abbrev != w[3]:
                key, what = ":abbrev-differs", "abbreviation differs from zic"
            if key:
                out["witnesses"].append({"key": prop + key, "what": what + " (python target)", "zone": name, "epochSeconds": t,
                                         "utc": dt.datetime.fromtimestamp(t + EPOCH_SHIFT, dt.timezone.utc).isoformat(),
                                         "got": [info.total_offset, info.dst_offset, info.abbrev], "zic": list(w[1:])})
                bad += 1
                if bad >= 3:
                    break
        c["segments_crossed"] = c.get("segments_crossed", 0) + len(crossed)
        if bad:
            c["zones_with_mismatch"] = c.get("zones_with_mismatch", 0) + 1
        if len(out["samples"]) < 2 and pts:
            t = pts[len(pts) // 2]
            info = zs.get_timezone_info_for_seconds(t)
            out["samples"].append({"zone": name, "epochSeconds": t, "python": [info.total_offset, info.dst_offset, info.abbrev]})
    return out


OPTION_SETS = [dict(viewing_months=vm, optimize_candidates=oc, in_place_transitions=ip)
               for vm in (14, 13) for oc in (True, False) for ip in (True, False)]


def run_options(work):
    """C04: the 8 option combinations must agree with the default (and with each other), instants and local times."""
    from zonedb.zone_specifier import ZoneSpecifier
    out = {"witnesses": [], "counters": {}, "samples": []}
    c = out["counters"]
    lo, hi = year_start(work["start_year"]), year_start(work["until_year"])
    for name, zi in work["zone_infos"].items():
        ref = ZoneSpecifier(zi)
        # instants where the window / finder / selector choices can matter: around every transition the default
        # configuration computes, around every year boundary (the 13- and 14-month windows differ there), a coarse grid
        pts = set(range(lo, hi, work.get("grid_s", 86400 * 9 + 3600 * 5)))
        starts = set()
        for y in range(work["start_year"], work["until_year"]):
            ref.init_for_year(y)
            for tr in ref.transitions:
                if lo <= tr.startEpochSecond < hi:
                    starts.add((tr.startEpochSecond, tr.to_timezone_tuple().total_offset))
            for d in (-86400, -43200, -3600, -1, 0, 1, 3600, 43200, 86399, 86400, 86401):
                t = year_start(y) + d
                if lo <= t < hi:
                    pts.add(t)
        for b, off in starts:
            for d in (-1, 0, 1, 3600):
                if lo <= b + d < hi:
                    pts.add(b + d)
        pts = sorted(pts)
        ref = ZoneSpecifier(zi)
        answers = [tuple(ref.get_timezone_info_for_seconds(t)) for t in pts]
        c["zones"] = c.get("zones", 0) + 1
        # local date-times: +-3 h around each transition's wall image, every 10 minutes; around each New Year; a grid
        locals_ = []
        for b, off in sorted(starts):
            if lo + 86400 * 3 <= b < hi - 86400 * 3:
                base = dt.datetime(2000, 1, 1) + dt.timedelta(seconds=b + off)
                for k in range(-18, 19, work.get("local_step", 1)):
                    locals_.append(base + dt.timedelta(minutes=10 * k))
        for y in range(work["start_year"] + 1, work["until_year"] - 1):
            for h in (-25, -13, -1, 0, 1, 13, 25):
                locals_.append(dt.datetime(y, 1, 1) + dt.timedelta(hours=h, minutes=30))
        d = dt.datetime(work["start_year"], 1, 3, 12, 0, 0)
        while d < dt.datetime(work["until_year"] - 1, 12, 28):
            locals_.append(d)
            d += dt.timedelta(days=29)
        ref_local = []
        for l in locals_:
            r = ref.get_timezone_info_for_datetime(l)
            ref_local.append(tuple(r) if r else None)
        for opts in OPTION_SETS[1:]:
            try:
                zs = ZoneSpecifier(zi, **opts)
                for t, a in zip(pts, answers):
                    c["option_probes"] = c.get("option_probes", 0) + 1
                    g = tuple(zs.get_timezone_info_for_seconds(t))
                    if g != a:
                        out["witnesses"].append({"key": "c04:python-options-disagree", "what": "ZoneSpecifier answer depends on its tuning options",
                                                 "zone": name, "epochSeconds": t, "options": opts, "got": list(g), "default": list(a)})
                        break
                for l, a in zip(locals_, ref_local):
                    c["option_local_probes"] = c.get("option_local_probes", 0) + 1
                    r = zs.get_timezone_info_for_datetime(l)
                    g = tuple(r) if r else None
                    if g != a:
                        out["witnesses"].append({"key": "c04:python-options-disagree-local", "what": "ZoneSpecifier local-time answer depends on its tuning options",
                                                 "zone": name, "local": l.isoformat(), "options": opts, "got": g, "default": a})
                        break
            except BaseException as e:  # noqa
                out["witnesses"].append({"key": "c04:python-options-raise", "what": "ZoneSpecifier raised under non-default options",
                                         "zone": name, "options": opts, "error": repr(e)[:300]})
    return out


def run_history(work):
    """C08 item 4: answers of one ZoneSpecifier after random sequences of instants -- inside the compiled range, at its
    edges and far outside it (where a cache fill fails) -- vs a fresh instance asked only the one question. A failed
    query is an answer too: the fresh instance failing and the used one answering (or the reverse) is a difference;
    the exception type is not compared."""
    from zonedb.zone_specifier import ZoneSpecifier
    out = {"witnesses": [], "counters": {}, "samples": []}
    c = out["counters"]
    rng = random.Random(work.get("seed", 0))
    lo, hi = year_start(work["start_year"]), year_start(work["until_year"])
    far_years = [1, 2, 1800, 1872, 1970, 1990, work["start_year"] - 2, work["start_year"] - 1, work["until_year"], work["until_year"] + 1,
                 2100, 2127, 5000, 9998, 9999]

    def ask_seconds(z, t):
        try:
            return ("ok", tuple(z.get_timezone_info_for_seconds(t)))
        except Exception:  # noqa
            return ("failed",)

    def ask_local(z, l):
        try:
            r = z.get_timezone_info_for_datetime(l)
            return ("ok", tuple(r) if r else None)
        except Exception:  # noqa
            return ("failed",)

    for name, zi in work["zone_infos"].items():
        zs = ZoneSpecifier(zi)
        hist = []
        for step in range(work.get("steps", 60)):
            t = rng.randrange(lo, hi)
            u = rng.random()
            if u < 0.3 and hist:
                t = hist[rng.randrange(len(hist))]      # revisit (also the immediate repeat of a failed query)
                if rng.random() < 0.4:
                    t = hist[-1]
            elif u < 0.5:
                y = rng.randrange(work["start_year"], work["until_year"])
                t = year_start(y) + rng.choice([-1, 0, 1, 86399, 86400])
                t = min(max(t, lo), hi - 1)
            elif u < 0.62:
                y = rng.choice(far_years)
                t = (dt.datetime(y, rng.choice((1, 6, 12)), rng.choice((1, 15, 28))) - dt.datetime(2000, 1, 1)).days * 86400 + rng.randrange(86400)
                c["far_queries"] = c.get("far_queries", 0) + 1
            hist.append(t)
            c["history_steps"] = c.get("history_steps", 0) + 1
            got = ask_seconds(zs, t)
            fresh = ask_seconds(ZoneSpecifier(zi), t)
            if fresh[0] == "failed":
                c["fresh_failed"] = c.get("fresh_failed", 0) + 1
            if got != fresh:
                out["witnesses"].append({"key": "c08:python-answer-depends-on-history", "what": "ZoneSpecifier answer differs from a fresh instance",
                                         "zone": name, "history": hist[-6:], "got": list(got), "fresh": list(fresh),
                                         "repeat_of_failed_query": len(hist) > 1 and hist[-2] == t and fresh[0] == "failed"})
                break
            try:
                l = dt.datetime(2000, 1, 1) + dt.timedelta(seconds=t)
            except OverflowError:
                continue
            if lo <= t < hi and not (work["start_year"] < l.year < work["until_year"] - 1):
                continue        # local-time answers in the first / last compiled year depend on the neighbouring year's data: not asked
            r1 = ask_local(zs, l)
            r2 = ask_local(ZoneSpecifier(zi), l)
            c["history_local_steps"] = c.get("history_local_steps", 0) + 1
            if r1 != r2:
                out["witnesses"].append({"key": "c08:python-answer-depends-on-history", "what": "ZoneSpecifier local-time answer differs from a fresh instance",
                                         "zone": name, "history": hist[-6:], "got": list(r1), "fresh": list(r2),
                                         "repeat_of_failed_query": len(hist) > 1 and hist[-2] == t and r2[0] == "failed"})
                break
        # New Year under the interpreter's other windows (13 and 12 months start on Jan 1 of the year itself, so a local time
        # on Jan 1 is looked up in the previous year's window): a query later in year y, then Jan 1 of y, on one instance
        for vm in (13, 12):
            zv = ZoneSpecifier(zi, viewing_months=vm)
            for y in range(work["start_year"] + 1, work["until_year"] - 1):
                for first, second in ((dt.datetime(y, 7, 1, 12, 0, 0), dt.datetime(y, 1, 1, 0, 30, 0)), (dt.datetime(y, 1, 1, 0, 30, 0), dt.datetime(y - 1, 12, 31, 23, 30, 0))):
                    ask_local(zv, first)
                    r1 = ask_local(zv, second)
                    r2 = ask_local(ZoneSpecifier(zi, viewing_months=vm), second)
                    c["new_year_pairs"] = c.get("new_year_pairs", 0) + 1
                    if r1 != r2:
                        out["witnesses"].append({"key": "c08:python-answer-depends-on-history", "what": "ZoneSpecifier local-time answer differs from a fresh instance",
                                                 "zone": name, "viewing_months": vm, "first_query": first.isoformat(), "query": second.isoformat(),
                                                 "got": list(r1), "fresh": list(r2)})
                        break
                else:
                    continue
                break
        c["zones"] = c.get("zones", 0) + 1
    return out


def main():
    work = pickle.loads(Path(sys.argv[1]).read_bytes())
    t0 = time.time()
    mode = work.get("mode", "zic")
    if mode == "zic":
        out = run_zic_compare(work)
    elif mode == "options":
        out = run_options(work)
    elif mode == "history":
        out = run_history(work)
    else:
        raise SystemExit("unknown mode")
    out["wall_s"] = time.time() - t0
    Path(sys.argv[2]).write_text(json.dumps(out, default=str))


if __name__ == "__main__":
    main()
