"""Turn the JSON dump of compiled C++ tables (native/codec.cpp, read through the brokers) into the Python data
model of tools/zonedb/ingenerator.py, so that ZoneSpecifier and the C++ processors run on the same data (C04)."""

MIN_YEAR, MAX_YEAR, MAX_UNTIL_YEAR = 0, 9999, 10000


def from_tiny(y):
    if y == -127:
        return MIN_YEAR
    if y == 126:
        return MAX_YEAR
    return y + 2000


def until_from_tiny(y):
    if y == 127:
        return MAX_UNTIL_YEAR
    if y == -128:
        return MIN_YEAR
    return y + 2000


def to_python_model(dump):
    policies = {}
    for p in dump["policies"]:
        rules = []
        for r in p["rules"]:
            rules.append({
                'fromYear': from_tiny(r["fromYearTiny"]), 'toYear': from_tiny(r["toYearTiny"]), 'inMonth': r["inMonth"],
                'onDayOfWeek': r["onDayOfWeek"], 'onDayOfMonth': r["onDayOfMonth"], 'atSeconds': r["atTimeMinutes"] * 60,
                'atTimeSuffix': r["atTimeSuffix"], 'deltaSeconds': r["deltaMinutes"] * 60, 'letter': r["letter"],
            })
        policies[p["id"]] = {'name': 'policy%d' % p["id"], 'rules': rules}
    infos = {}
    for z in dump["zones"]:
        eras = []
        for e in z["eras"]:
            fixed = e["policy"] < 0
            eras.append({
                'offsetSeconds': e["offsetMinutes"] * 60,
                'zonePolicy': ('-' if e["deltaMinutes"] == 0 else ':') if fixed else policies[e["policy"]],
                'rulesDeltaSeconds': e["deltaMinutes"] * 60 if fixed else 0,
                'format': e["format"].replace('%', '%s'),
                'untilYear': until_from_tiny(e["untilYearTiny"]), 'untilMonth': e["untilMonth"], 'untilDay': e["untilDay"],
                'untilSeconds': e["untilTimeMinutes"] * 60, 'untilTimeSuffix': e["untilTimeSuffix"],
            })
        infos[z["name"]] = {'name': z["name"], 'eras': eras}
    return infos
