"""Running the real TZ compiler (tools/) in-process with monitors attached (DESIGN.md 2.5, C03/C12/C20).

compile_source() replicates tools/tzcompiler.py's main() step by step so that the harness can
(a) attach icontract conservation contracts to every Transformer pass, (b) keep every intermediate
map, and (c) turn an escaping exception / sys.exit into an observation instead of dying.
The unmodified tzcompiler.py is additionally run as a subprocess where byte-level output matters.
"""
import copy
import importlib
import io
import logging
import os
import subprocess
import sys
from pathlib import Path

import vlib

vlib.ensure_deps()
import icontract  # noqa: E402

TOOLS = vlib.REPO / "tools"
if str(TOOLS) not in sys.path:
    sys.path.insert(0, str(TOOLS))

ZONE_FILES = ['africa', 'antarctica', 'asia', 'australasia', 'backward', 'etcetera', 'europe',
              'northamerica', 'southamerica']


class ConservationBroken(Exception):
    pass


class CompilerDied(Exception):
    def __init__(self, stage, exc):
        Exception.__init__(self, "%s: %r" % (stage, exc))
        self.stage = stage
        self.exc = exc


# ---------------------------------------------------------------- contracts on the real passes
CONTRACT_EVALS = {}
CONTRACT_FAILS = []


def _mods():
    ex = importlib.import_module("tzdb.extractor")
    tr = importlib.import_module("tzdb.transformer")
    return ex, tr


def _names_in(m):
    return set(m.keys()) if isinstance(m, dict) else set()


def _wrap_pass(cls, name, kind):
    """kind: 'zones' | 'policies' | 'links' | 'zones+rules' | 'zones+links'"""
    orig = getattr(cls, name)
    if getattr(orig, "_verif_wrapped", False):
        return

    def wrapper(self, *args, **kw):
        before = [_names_in(a) for a in args]
        result = orig(self, *args, **kw)
        CONTRACT_EVALS[name] = CONTRACT_EVALS.get(name, 0) + 1
        results = result if isinstance(result, tuple) else (result,)
        checks = []
        if kind == 'zones':
            checks.append(('zone', before[0], _names_in(results[0]), self.all_removed_zones))
        elif kind == 'policies':
            checks.append(('policy', before[0], _names_in(results[0]), self.all_removed_policies))
        elif kind == 'links':
            checks.append(('link', before[0], _names_in(results[0]), self.all_removed_links))
        elif kind == 'zones+rules':
            checks.append(('zone', before[0], _names_in(results[0]), self.all_removed_zones))
            checks.append(('policy', before[1], _names_in(results[1]), self.all_removed_policies))
        elif kind == 'zones+links':
            checks.append(('zone', before[0], _names_in(results[0]), self.all_removed_zones))
            checks.append(('link', before[1], _names_in(results[1]), self.all_removed_links))
        elif kind == 'zones(+rules arg)':
            checks.append(('zone', before[0], _names_in(results[0]), self.all_removed_zones))
        for what, old, new, removed in checks:
            lost = sorted(n for n in old if n not in new and not removed.get(n))
            if lost:
                CONTRACT_FAILS.append({"pass": name, "what": what, "lost": lost[:8], "count": len(lost)})
        return result
    wrapper._verif_wrapped = True
    wrapper.__name__ = name
    setattr(cls, name, wrapper)


PASS_KINDS = {
    '_detect_hash_collisions': 'zones', '_remove_zone_eras_too_old': 'zones', '_remove_zone_eras_too_new': 'zones',
    '_remove_zones_without_eras': 'zones', '_remove_zone_until_year_only_false': 'zones',
    '_create_zones_with_until_day': 'zones', '_create_zones_with_expanded_until_time': 'zones',
    '_remove_zones_invalid_until_time_suffix': 'zones', '_create_zones_with_expanded_offset_string': 'zones',
    '_remove_zones_with_invalid_rules_format_combo': 'zones', '_create_zones_with_rules_expansion': 'zones',
    '_remove_zones_with_non_monotonic_until': 'zones', '_mark_rules_used_by_zones': 'zones+rules',
    '_remove_rules_unused': 'policies', '_remove_rules_out_of_bounds': 'policies',
    '_remove_rules_multiple_transitions_in_month': 'policies', '_create_rules_with_expanded_at_time': 'policies',
    '_remove_rules_invalid_at_time_suffix': 'policies', '_create_rules_with_expanded_delta_offset': 'policies',
    '_create_rules_with_on_day_expansion': 'policies', '_create_rules_with_anchor_transition': 'policies',
    '_remove_rules_with_border_transitions': 'policies', '_remove_rules_long_dst_letter': 'policies',
    '_remove_zones_without_rules': 'zones(+rules arg)', 'remove_links_to_missing_zones': 'links',
    'remove_zones_and_links_with_similar_names': 'zones+links',
}


def attach_contracts():
    """Wrap every Transformer pass with the conservation post-condition
    `input names subset of (output names | names booked as removed, with a reason)`.
    Evaluations are counted; failures are recorded with the pass that lost the name."""
    _, tr = _mods()
    for name, kind in PASS_KINDS.items():
        if hasattr(tr.Transformer, name):
            _wrap_pass(tr.Transformer, name, kind)
    # a genuine icontract contract on the pure helper used by every pass that books a reason
    if not getattr(tr._add_reason, "_verif_wrapped", False):
        def reason_recorded(m, name, reason, result):
            CONTRACT_EVALS['_add_reason'] = CONTRACT_EVALS.get('_add_reason', 0) + 1
            return name in m and reason in m[name]
        wrapped = icontract.ensure(reason_recorded, error=ConservationBroken)(tr._add_reason)
        wrapped._verif_wrapped = True
        tr._add_reason = wrapped


# ---------------------------------------------------------------- input directory
def write_input_dir(text, directory):
    """Lay `text` (long dialect) out as the nine files Extractor.ZONE_FILES opens."""
    d = Path(directory)
    d.mkdir(parents=True, exist_ok=True)
    for f in ZONE_FILES:
        (d / f).write_text("")
    (d / "africa").write_text(text)
    return d


class Compilation:
    pass


def compile_source(input_dir, scope, start_year=2000, until_year=2050, until_at_granularity=60,
                   offset_granularity=None, strict=False, tz_version="verif", quiet=True):
    """In-process equivalent of tzcompiler.py up to the TzDb + inline maps."""
    ex, tr = _mods()
    coll = importlib.import_module("tzdb.tzdbcollector")
    ing = importlib.import_module("zonedb.ingenerator")
    if offset_granularity is None:
        offset_granularity = 900 if scope == 'basic' else 60
    c = Compilation()
    c.scope, c.start_year, c.until_year = scope, start_year, until_year
    lg = logging.getLogger()
    old_level = lg.level
    if quiet:
        lg.setLevel(logging.CRITICAL + 1)
    old_stderr = sys.stderr
    if quiet:
        sys.stderr = io.StringIO()
    try:
        stage = "extractor"
        try:
            extractor = ex.Extractor(str(input_dir))
            extractor.parse()
            rules_map, zones_map, links_map = extractor.get_data()
            c.extractor = extractor
            c.input_zone_names = set(zones_map)
            c.input_link_names = set(links_map)
            c.input_policy_names = set(rules_map)
            stage = "transformer"
            transformer = tr.Transformer(zones_map, rules_map, links_map, scope, start_year, until_year,
                                         until_at_granularity, offset_granularity, strict)
            transformer.transform()
            c.transformer = transformer
            (zones_map, rules_map, links_map, removed_zones, removed_policies, removed_links, notable_zones,
             notable_policies, notable_links, format_strings, zone_strings) = transformer.get_data()
            stage = "collector"
            c.tzdb = coll.TzDbCollector(
                tz_version=tz_version, tz_files=ex.Extractor.ZONE_FILES, scope=scope, start_year=start_year,
                until_year=until_year, until_at_granularity=until_at_granularity, offset_granularity=offset_granularity,
                strict=strict, zones_map=zones_map, links_map=links_map, rules_map=rules_map, removed_zones=removed_zones,
                removed_links=removed_links, removed_policies=removed_policies, notable_zones=notable_zones,
                notable_links=notable_links, notable_policies=notable_policies, format_strings=format_strings,
                zone_strings=zone_strings).get_data()
            stage = "inline-generator"
            c.zone_infos, c.zone_policies = ing.InlineGenerator(c.tzdb['zones_map'], c.tzdb['rules_map']).generate_maps()
        except SystemExit as e:
            raise CompilerDied(stage, e)
        except ConservationBroken:
            raise
        except Exception as e:  # noqa
            raise CompilerDied(stage, e)
    finally:
        lg.setLevel(old_level)
        sys.stderr = old_stderr
    return c


def generate_arduino(c, output_dir, db_namespace, invocation="verif", generate_zone_strings=False):
    """Run the real BufSizeEstimator + ArduinoGenerator on a Compilation."""
    buf = importlib.import_module("zonedb.bufestimator")
    arg = importlib.import_module("zonedb.argenerator")
    lg = logging.getLogger()
    old_level = lg.level
    lg.setLevel(logging.CRITICAL + 1)
    try:
        try:
            est = buf.BufSizeEstimator(c.zone_infos, c.zone_policies, c.tzdb['start_year'], c.tzdb['until_year'])
            buf_sizes, max_size = est.estimate()
            c.buf_sizes = buf_sizes
            gen = arg.ArduinoGenerator(invocation=invocation, db_namespace=db_namespace, generate_zone_strings=generate_zone_strings,
                                       tzdb=c.tzdb, buf_sizes=buf_sizes)
            Path(output_dir).mkdir(parents=True, exist_ok=True)
            gen.generate_files(str(output_dir))
        except SystemExit as e:
            raise CompilerDied("arduino-generator", e)
        except Exception as e:  # noqa
            raise CompilerDied("arduino-generator", e)
    finally:
        lg.setLevel(old_level)


def generate_python(c, output_dir, invocation="verif"):
    pyg = importlib.import_module("zonedb.pygenerator")
    lg = logging.getLogger()
    old_level = lg.level
    lg.setLevel(logging.CRITICAL + 1)
    try:
        try:
            Path(output_dir).mkdir(parents=True, exist_ok=True)
            pyg.PythonGenerator(invocation=invocation, tzdb=c.tzdb).generate_files(str(output_dir))
        except SystemExit as e:
            raise CompilerDied("python-generator", e)
        except Exception as e:  # noqa
            raise CompilerDied("python-generator", e)
    finally:
        lg.setLevel(old_level)


def run_tzcompiler(input_dir, output_dir, scope, language, action="zonedb", start_year=2000, until_year=2050,
                   tz_version="verif", extra=(), env_extra=None, cwd=None, db_namespace=None):
    """The unmodified tools/tzcompiler.py as a subprocess (byte-level output matters for C12/C20)."""
    Path(output_dir).mkdir(parents=True, exist_ok=True)
    cmd = [sys.executable, str(TOOLS / "tzcompiler.py"), "--input_dir", str(input_dir), "--output_dir", str(output_dir),
           "--tz_version", tz_version, "--action", action, "--scope", scope,
           "--start_year", str(start_year), "--until_year", str(until_year)]
    if language:
        cmd += ["--language", language]
    if db_namespace:
        cmd += ["--db_namespace", db_namespace]
    cmd += list(extra)
    env = dict(os.environ)
    env["PYTHONPATH"] = str(TOOLS)
    env.pop(vlib.GUARD, None)
    if env_extra:
        env.update(env_extra)
    p = subprocess.run(cmd, capture_output=True, text=True, env=env, cwd=cwd or str(TOOLS), timeout=600)
    return p
