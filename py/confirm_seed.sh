#!/bin/sh
# Confirm a sub-agent's seeded change in its own scratch worktree:
#   tests still pass with the change; the demonstration fails with it and passes without it.
# usage: confirm_seed.sh ID    (worktree /tmp/seed/ID, deliverables /tmp/seed/out/ID)
ID=$1; W=/tmp/seed/$ID; O=/tmp/seed/out/$ID
run_demo() {
  if [ -f $O/demo.py ]; then
    (cd $W/tools && PYTHONPATH=$W/tools /venv/bin/python $O/demo.py > /tmp/confirmout_$ID.log 2>&1); return $?
  else
    clang++ -std=gnu++11 -O1 -DUNIX_HOST_DUINO -I /tmp/seed-support/shim -I $W/src $W/src/ace_time/*.cpp $W/src/ace_time/common/DateStrings.cpp \
      $W/src/ace_time/zonedb/*.cpp $W/src/ace_time/zonedbx/*.cpp /tmp/seed-support/shim/shim.cpp $O/demo.cpp -o /tmp/confirmdemo_$ID 2>/tmp/confirmbuild_$ID.log || { echo BUILD-FAILED; return 99; }
    /tmp/confirmdemo_$ID > /tmp/confirmout_$ID.log 2>&1; rc=$?; rm -f /tmp/confirmdemo_$ID; return $rc
  fi
}
[ -n "$(git -C $W status --porcelain)" ] || { echo "$ID NOT-CONFIRMED: worktree has no change"; exit 1; }
git -C $W diff > /tmp/confirmpatch_$ID.diff
T=$(cd $W && /venv/bin/python -m pytest -q -p no:cacheprovider tools/tests 2>&1 | tail -1)
run_demo; RC_WITH=$?
git -C $W apply -R /tmp/confirmpatch_$ID.diff; run_demo; RC_WITHOUT=$?; git -C $W apply /tmp/confirmpatch_$ID.diff   # (git stash is shared between worktrees: not used)
echo "$ID tests='$T' demo_with_change_rc=$RC_WITH demo_without_rc=$RC_WITHOUT changed_lines=$(grep -c '^[+-][^+-]' /tmp/confirmpatch_$ID.diff)"
case "$T" in *"34 passed"*) ;; *) echo "$ID NOT-CONFIRMED tests"; exit 1;; esac
[ $RC_WITH -ne 0 ] && [ $RC_WITH -ne 99 ] && [ $RC_WITHOUT -eq 0 ] && echo "$ID CONFIRMED" || echo "$ID NOT-CONFIRMED"
