// Definitions for the shim: Serial object and a default millis().
#include <Arduino.h>
VerifStderrSerial Serial;
static unsigned long verifMillisValue = 0;
extern "C" unsigned long millis() __attribute__((weak));
extern "C" unsigned long millis() { return verifMillisValue; }

// Default sink of the guarded BasicZoneProcessor hook (ACE_TIME_VERIF_HOOKS): counts dropped transitions.
extern "C" {
long long aceTimeVerifDropped = 0;
void aceTimeVerifBasicTransitionDropped() { aceTimeVerifDropped++; }
}
