// Host-side Arduino.h (trusted base, see DESIGN.md 2.2).
#ifndef VERIF_SHIM_ARDUINO_H
#define VERIF_SHIM_ARDUINO_H
#include <stdint.h>
#include <stddef.h>
#include <string.h>
#include <stdio.h>
#include "pgmspace.h"
#include "Print.h"

class __FlashStringHelper;
#define F(s) (reinterpret_cast<const __FlashStringHelper*>(s))
#define FPSTR(p) (reinterpret_cast<const __FlashStringHelper*>(p))

extern "C" unsigned long millis();

class VerifStderrSerial: public Print {
  public:
    size_t write(uint8_t c) override { fputc(c, stderr); return 1; }
};
extern VerifStderrSerial Serial;
#define SERIAL_PORT_MONITOR Serial
#endif
