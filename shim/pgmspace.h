// Host-side pgmspace.h: flash memory is ordinary memory (trusted base, see DESIGN.md 2.2).
#ifndef VERIF_SHIM_PGMSPACE_H
#define VERIF_SHIM_PGMSPACE_H
#include <stdint.h>
#include <string.h>
#define PROGMEM
#define PGM_P const char*
#define PSTR(s) (s)
#define pgm_read_byte(p) (*(const uint8_t*) (p))
#define pgm_read_word(p) (*(const uint16_t*) (p))
#define pgm_read_dword(p) (*(const uint32_t*) (p))
#define pgm_read_ptr(p) (*(const void* const*) (p))
#define strcmp_P strcmp
#define strncpy_P strncpy
#define strlen_P strlen
#define strchr_P strchr
#define strrchr_P strrchr
#define memcpy_P memcpy
#endif
