// Minimal host-side stand-in for Arduino's Print class (trusted base, see DESIGN.md 2.2).
#ifndef VERIF_SHIM_PRINT_H
#define VERIF_SHIM_PRINT_H
#include <stdint.h>
#include <stddef.h>
#include <string.h>
#include <stdio.h>

class __FlashStringHelper;

class Print {
  public:
    virtual ~Print() {}
    virtual size_t write(uint8_t c) = 0;
    size_t write(const char* s) {
      size_t n = 0;
      while (*s) { n += write((uint8_t) *s++); }
      return n;
    }
    size_t print(const char* s) { return write(s); }
    size_t print(const __FlashStringHelper* s) { return write((const char*) s); }
    size_t print(char c) { return write((uint8_t) c); }
    size_t print(unsigned char v) { return printNumber((unsigned long) v); }
    size_t print(int v) { return print((long) v); }
    size_t print(unsigned int v) { return printNumber((unsigned long) v); }
    size_t print(long v) {
      if (v < 0) {
        size_t n = print('-');
        return n + printNumber((unsigned long) (-(v + 1)) + 1UL);
      }
      return printNumber((unsigned long) v);
    }
    size_t print(unsigned long v) { return printNumber(v); }
    size_t println() { return write("\r\n"); }
    size_t println(const char* s) { size_t n = print(s); return n + println(); }
    template <typename T> size_t println(T v) { size_t n = print(v); return n + println(); }
  private:
    size_t printNumber(unsigned long v) {
      char buf[24];
      char* p = &buf[sizeof(buf) - 1];
      *p = '\0';
      do { *--p = (char) ('0' + (v % 10)); v /= 10; } while (v);
      return write(p);
    }
};
#endif
